//go:build verif

package types

import (
	"github.com/cedar-policy/cedar-go/internal/vrt"
)

// C12 (datetime, calendar validity only): checkValidDay accepts exactly the
// days that exist; month and day are symbolic, the year is a selector.
func VerifC12_ValidDay() {
	vrt.Theory("bv")
	years := []int{2024}
	if vrt.Thorough() {
		years = []int{2024, 2023, 1900, 2000}
	}
	year := years[vrt.Choice("year", len(years))]
	m, d := vrt.Uint32("month"), vrt.Uint32("day")
	if year != 2024 {
		// the other years (non-leap, century non-leap, century leap) are enumerated: the
		// symbolic month/day queries through time.Date came back unknown for them
		m, d = uint32(vrt.Choice("month-enumerated", 13)), uint32(vrt.Choice("day-enumerated", 32))
	}
	vrt.Assume(vrt.And(m <= 12, d <= 31)) // parseUint's upper bounds
	err := checkValidDay(year, uint(m), uint(d))
	valid := vrt.And(m >= 1, d >= 1)
	if vrt.ConcretizeBool(valid) {
		mc := int64(vrt.Concretize(int(m)))
		dim := int64(31)
		switch mc {
		case 4, 6, 9, 11:
			dim = 30
		case 2:
			dim = 28
			if year%4 == 0 && (year%100 != 0 || year%400 == 0) {
				dim = 29
			}
		}
		valid = int64(d) <= dim
	}
	if vrt.ConcretizeBool(valid) {
		vrt.Cover("C12.validday.accept")
		vrt.Assert("C12.validday.accepts-existing-day", err == nil)
	} else {
		vrt.Cover("C12.validday.reject")
		vrt.Assert("C12.validday.rejects-nonexistent-day", err != nil)
	}
}
