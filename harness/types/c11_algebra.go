//go:build verif

package types

import (
	"github.com/cedar-policy/cedar-go/internal/vrt"
)

// C11: value algebra.  Elements are drawn from the scalar kinds whose hash is
// the payload itself (Long, Decimal, Duration, Datetime, Boolean), so values of
// different kinds with the same payload collide in Set's open-addressed map.
// Payloads are symbolic int64; the kind is a selector.

type c11Elem struct {
	kind int
	p    int64
	v    Value
}

const c11Kinds = 5

func c11Make(kind int, p int64) Value {
	switch kind {
	case 0:
		return Long(p)
	case 1:
		return Decimal{value: p}
	case 2:
		return NewDurationFromMillis(p)
	case 3:
		return NewDatetimeFromMillis(p)
	default:
		return Boolean(p&1 == 1)
	}
}

func c11New(label string, kinds int) c11Elem {
	k := vrt.Choice(label+".kind", kinds)
	p := vrt.Int64(label + ".payload")
	return c11Elem{kind: k, p: p, v: c11Make(k, p)}
}

// eq is the model's equality: same kind and same payload (non-forking).
func (a c11Elem) eq(b c11Elem) bool {
	if a.kind != b.kind {
		return false
	}
	if a.kind == 4 {
		return a.p&1 == b.p&1
	}
	return a.p == b.p
}

func c11N() int {
	n := 2
	if vrt.Thorough() {
		n = 3
	}
	vrt.Bound("set-elements", n)
	return n
}

func c11Kindsel() int {
	// quick: three colliding kinds; thorough: all five
	if vrt.Thorough() {
		return c11Kinds
	}
	return 3
}

func VerifC11_EqualityLaws() {
	ks := c11Kindsel()
	a, b, c := c11New("a", ks), c11New("b", ks), c11New("c", ks)
	ab, ba := a.v.Equal(b.v), b.v.Equal(a.v)
	vrt.Cover("C11.eq.checked")
	vrt.Assert("C11.eq.reflexive", a.v.Equal(a.v))
	vrt.Assert("C11.eq.symmetric", ab == ba)
	vrt.Assert("C11.eq.model", ab == a.eq(b))
	if ab && b.v.Equal(c.v) {
		vrt.Cover("C11.eq.transitive-premise")
		vrt.Assert("C11.eq.transitive", a.v.Equal(c.v))
	}
	if ab {
		vrt.Assert("C11.eq.hash-consistent", a.v.hash() == b.v.hash())
	}
	if a.kind != b.kind {
		vrt.Cover("C11.eq.different-types")
		vrt.Assert("C11.eq.types-distinguished", !ab)
	}
}

func VerifC11_SetLaws() {
	n := c11N()
	ks := c11Kindsel()
	es := make([]c11Elem, n)
	vals := make([]Value, n)
	for i := range es {
		es[i] = c11New("e", ks)
		vals[i] = es[i].v
	}
	s := NewSet(vals...)
	// expected size: number of first occurrences
	want := 0
	for i := range es {
		dup := false
		for j := 0; j < i; j++ {
			dup = vrt.Or(dup, es[i].eq(es[j]))
		}
		want = vrt.IteInt(dup, want, want+1)
	}
	vrt.Cover("C11.set.built")
	vrt.Assert("C11.set.len", s.Len() == want)
	for i := range es {
		vrt.Assert("C11.set.contains-members", s.Contains(es[i].v))
	}
	probe := c11New("probe", ks)
	in := false
	for i := range es {
		in = vrt.Or(in, probe.eq(es[i]))
	}
	got := s.Contains(probe.v)
	if got {
		vrt.Cover("C11.set.probe-in")
	} else {
		vrt.Cover("C11.set.probe-out")
	}
	vrt.Assert("C11.set.contains-exact", got == in)
	// accessors agree with Len and membership
	sl := s.Slice()
	vrt.Assert("C11.set.slice-len", len(sl) == s.Len())
	cnt := 0
	for v := range s.All() {
		cnt++
		vrt.Assert("C11.set.all-members", s.Contains(v))
	}
	vrt.Assert("C11.set.all-count", cnt == s.Len())
	vrt.Assert("C11.set.equal-reflexive", s.Equal(s))
}

// VerifC11_SetPermutation: a set built from any re-ordering with duplicates of
// a subsequence equals the original exactly when it covers all distinct members.
func VerifC11_SetPermutation() {
	n := c11N()
	ks := c11Kindsel()
	es := make([]c11Elem, n)
	vals := make([]Value, n)
	for i := range es {
		es[i] = c11New("e", ks)
		vals[i] = es[i].v
	}
	m := n + 1
	idx := make([]int, m)
	vals2 := make([]Value, m)
	for j := range idx {
		idx[j] = vrt.Choice("pick", n)
		vals2[j] = es[idx[j]].v
	}
	s1, s2 := NewSet(vals...), NewSet(vals2...)
	covers := true
	for i := range es {
		c := false
		for j := range idx {
			c = vrt.Or(c, es[i].eq(es[idx[j]]))
		}
		covers = vrt.And(covers, c)
	}
	e12, e21 := s1.Equal(s2), s2.Equal(s1)
	if e12 {
		vrt.Cover("C11.perm.equal")
	} else {
		vrt.Cover("C11.perm.unequal")
	}
	vrt.Assert("C11.perm.symmetric", e12 == e21)
	vrt.Assert("C11.perm.exact", e12 == covers)
	if e12 {
		vrt.Assert("C11.perm.hash", s1.hash() == s2.hash())
		vrt.Assert("C11.perm.len", s1.Len() == s2.Len())
	}
	// s2 is always a subset of s1
	for v := range s2.All() {
		vrt.Assert("C11.perm.subset", s1.Contains(v))
	}
}

func VerifC11_RecordLaws() {
	keys := []String{"a", "b"}
	mk := func(label string) (RecordMap, []bool, []c11Elem) {
		m := RecordMap{}
		has := make([]bool, len(keys))
		el := make([]c11Elem, len(keys))
		for i, k := range keys {
			has[i] = vrt.Choice(label+".has", 2) == 1
			if has[i] {
				el[i] = c11New(label+"."+string(k), 2)
				m[k] = el[i].v
			}
		}
		return m, has, el
	}
	m1, h1, e1 := mk("r1")
	m2, h2, e2 := mk("r2")
	r1, r2 := NewRecord(m1), NewRecord(m2)
	want := true
	for i := range keys {
		if h1[i] != h2[i] {
			want = false
		} else if h1[i] {
			want = vrt.And(want, e1[i].eq(e2[i]))
		}
	}
	g12, g21 := r1.Equal(r2), r2.Equal(r1)
	if g12 {
		vrt.Cover("C11.record.equal")
	} else {
		vrt.Cover("C11.record.unequal")
	}
	vrt.Assert("C11.record.symmetric", g12 == g21)
	vrt.Assert("C11.record.exact", g12 == want)
	vrt.Assert("C11.record.reflexive", r1.Equal(r1))
	if g12 {
		vrt.Assert("C11.record.hash", r1.hash() == r2.hash())
	}
	vrt.Assert("C11.record.len", r1.Len() == len(m1))
	for i, k := range keys {
		v, ok := r1.Get(k)
		vrt.Assert("C11.record.get-present", ok == h1[i])
		if ok {
			vrt.Assert("C11.record.get-value", v.Equal(e1[i].v))
		}
	}
	vrt.Assert("C11.record.vs-set", !r1.Equal(NewSet()) && !NewSet().Equal(r1))
}

// VerifC11_Immutability: mutating constructor inputs or accessor outputs never
// changes an existing value.
func VerifC11_Immutability() {
	a, b, c := c11New("a", 2), c11New("b", 2), c11New("c", 2)
	vals := []Value{a.v, b.v}
	s := NewSet(vals...)
	before := s.Len()
	hadC := s.Contains(c.v)
	vals[0], vals[1] = c.v, c.v // mutate constructor input
	sl := s.Slice()
	for i := range sl {
		sl[i] = c.v // mutate accessor output
	}
	vrt.Cover("C11.immut.set")
	vrt.Assert("C11.immut.set-len", s.Len() == before)
	vrt.Assert("C11.immut.set-members", s.Contains(a.v) && s.Contains(b.v))
	vrt.Assert("C11.immut.set-nonmember", s.Contains(c.v) == hadC)

	m := RecordMap{"k": a.v}
	r := NewRecord(m)
	m["k"] = c.v // mutate constructor input
	m["z"] = c.v
	out := r.Map()
	out["k"] = c.v // mutate accessor output
	delete(out, "k")
	v, ok := r.Get("k")
	vrt.Cover("C11.immut.record")
	vrt.Assert("C11.immut.record-get", ok && v.Equal(a.v))
	vrt.Assert("C11.immut.record-len", r.Len() == 1)
	_, okz := r.Get("z")
	vrt.Assert("C11.immut.record-noextra", !okz)
	vrt.Assert("C11.immut.record-equal", r.Equal(NewRecord(RecordMap{"k": a.v})))
}

// VerifC11_NestedCollisions: containers nested in containers over the universe the
// property names (values that collide in the internal hash: true / 1 / decimal
// 0.0001 / 1 ms / datetime 1, neighbouring longs).  A set built from a sequence and
// the set built from any re-ordering of it are one value: equal, same hash, and
// indistinguishable as a record member, as a set member and as a nested set.
func VerifC11_NestedCollisions() {
	uni := []Value{True, Long(1), Decimal{value: 1}, Duration{value: 1}, Datetime{value: 1}, Long(2), Long(0), False, String("1")}
	n := 2
	if vrt.Thorough() {
		n = 3
	}
	vrt.Bound("nested-collision-sequence-length", n)
	seq := make([]Value, n)
	for i := range seq {
		seq[i] = uni[vrt.Choice("member", len(uni))]
	}
	// a re-ordering: rotate by k and optionally reverse
	k := vrt.Choice("rotate", n)
	rev := vrt.Choice("reverse", 2) == 1
	perm := make([]Value, n)
	for i := range perm {
		j := (i + k) % n
		if rev {
			j = n - 1 - j
		}
		perm[i] = seq[j]
	}
	s1, s2 := NewSet(seq...), NewSet(perm...)
	vrt.Cover("C11.nested.checked")
	vrt.Assert("C11.nested.sets-equal", s1.Equal(s2) && s2.Equal(s1))
	vrt.Assert("C11.nested.sets-hash", s1.hash() == s2.hash())
	r1 := NewRecord(RecordMap{"k": s1, "n": Long(7)})
	r2 := NewRecord(RecordMap{"n": Long(7), "k": s2})
	vrt.Assert("C11.nested.records-equal", r1.Equal(r2) && r2.Equal(r1))
	vrt.Assert("C11.nested.records-hash", r1.hash() == r2.hash())
	vrt.Assert("C11.nested.record-in-set", NewSet(r1).Contains(r2) && NewSet(r1, r2).Len() == 1)
	vrt.Assert("C11.nested.set-in-set", NewSet(s1).Contains(s2) && NewSet(s1, s2).Len() == 1 && NewSet(s1).Equal(NewSet(s2)))
	rr1 := NewRecord(RecordMap{"r": r1})
	rr2 := NewRecord(RecordMap{"r": r2})
	vrt.Assert("C11.nested.record-in-record", rr1.Equal(rr2) && rr1.hash() == rr2.hash())
	// and a record is not equal to one whose nested set differs by one member
	other := NewSet(append(append([]Value{}, seq...), String("extra"))...)
	vrt.Assert("C11.nested.distinguishes", !NewRecord(RecordMap{"k": other, "n": Long(7)}).Equal(r1))
}
