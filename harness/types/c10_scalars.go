//go:build verif

package types

import (
	"github.com/cedar-policy/cedar-go/internal/vrt"
)

// C10 (scalar decoders): every short byte string yields a value or an error.
func VerifC10_ScalarParsers() {
	n := 1 + vrt.Choice("len", 2)
	if vrt.Thorough() {
		n = 1 + vrt.Choice("len", 3)
	}
	vrt.Bound("arbitrary-bytes", 3)
	s := string(vrt.Bytes("s", n))
	switch vrt.Choice("parser", 5) {
	case 0:
		_, err := ParseDuration(s)
		if err == nil {
			vrt.Cover("C10.scalar.duration-accept")
		}
	case 1:
		_, err := ParseDecimal(s)
		_ = err
	case 2:
		p := NewPattern(String(s), Wildcard{}, String(s))
		vrt.Cover("C10.scalar.pattern-accept")
		_ = p.MarshalCedar()
		_ = p.Match(String(s))
	case 3:
		var e EntityUID
		err := e.UnmarshalCedar([]byte("T::\"" + s + "\""))
		if err == nil {
			vrt.Cover("C10.scalar.entityuid-accept")
			_ = e.MarshalCedar()
		}
	case 4:
		_, err := ParseDatetime("2024-01-0" + s)
		_ = err
	}
	vrt.Assert("C10.scalar.no-panic", true)
}
