//go:build verif

package types

import (
	"encoding/json"

	"github.com/cedar-policy/cedar-go/internal/vrt"
)

// C10 at the JSON byte level for values and entities: W arbitrary bytes as a
// whole value document and inside escape objects, records, sets and entity
// documents; cedar-go's decoders must return a value or an error (a panic or a
// budget overrun is the violation); an accepted value is rendered, compared,
// hashed and re-encoded.
func VerifC10_ValueJSONWindow() {
	w := 2
	if vrt.Thorough() {
		w = 3
	}
	vrt.Bound("window-bytes", w)
	b := string(vrt.Bytes("w", w))
	var doc string
	switch vrt.Choice("place", 9) {
	case 0:
		doc = b
	case 1:
		doc = `{"__extn":` + b + `}`
	case 2:
		doc = `{"__extn":{"fn":"` + b + `","arg":"` + b + `"}}`
	case 3:
		doc = `{"__entity":` + b + `}`
	case 4:
		doc = `{"__entity":{"type":` + b + `,"id":"x"}}`
	case 5:
		doc = `[1,` + b + `,"s"]`
	case 6:
		doc = `{"k":` + b + `,"` + b + `":2}`
	case 7:
		doc = `{"__extn":{"fn":"decimal","arg":"1` + b + `"}}`
	case 8:
		doc = `{"__extn":{"fn":"duration","arg":"` + b + `ms"},"x":1}`
	}
	var v Value
	err := UnmarshalJSON([]byte(doc), &v)
	if err != nil {
		vrt.Cover("C10.valuejson.rejected")
		return
	}
	vrt.Cover("C10.valuejson.accepted")
	if v != nil {
		_ = v.String()
		_ = v.MarshalCedar()
		_ = v.Equal(v)
		_ = v.hash()
		_, _ = json.Marshal(v)
	}
	vrt.Assert("C10.valuejson.no-panic", true)
}

func VerifC10_EntityJSONWindow() {
	b := string(vrt.Bytes("w", 2))
	var doc string
	switch vrt.Choice("place", 6) {
	case 0:
		doc = `[{"uid":` + b + `,"parents":[],"attrs":{},"tags":{}}]`
	case 1:
		doc = `[{"uid":{"type":"T","id":"a"},"parents":` + b + `,"attrs":{}}]`
	case 2:
		doc = `[{"uid":{"type":"T","id":"a"},"parents":[{"type":"P","id":"p"},` + b + `],"attrs":{"a":` + b + `}}]`
	case 3:
		doc = `[{"uid":{"type":"T","id":"a"},"attrs":{},"tags":` + b + `},` + b + `]`
	case 4:
		doc = `[{"uid":{"__entity":{"type":"T","id":"a"}},"` + b + `":[],"attrs":{"x":{"__entity":{"type":"T","id":"` + b + `"}}}}]`
	case 5:
		doc = b
	}
	var m EntityMap
	err := json.Unmarshal([]byte(doc), &m)
	if err != nil {
		vrt.Cover("C10.entityjson.rejected")
		return
	}
	vrt.Cover("C10.entityjson.accepted")
	for uid, e := range m {
		_ = uid.String()
		_ = e.Equal(e)
		_, _ = e.MarshalJSON()
		_, _ = m.Get(uid)
	}
	_, _ = json.Marshal(m)
	var req Request
	_ = json.Unmarshal([]byte(`{"principal":`+doc+`,"action":{"type":"Action","id":"a"},"resource":{"type":"R","id":"r"},"context":{}}`), &req)
	vrt.Assert("C10.entityjson.no-panic", true)
}

// JSON token level: partial and null-holding escape objects in every slot of an
// entity document and as input of every typed decoder.
func VerifC10_EntityJSONTokens() {
	toks := []string{`null`, `1`, `"s"`, `[]`, `{}`, `{"id":"a"}`, `{"type":"T"}`, `{"type":null,"id":"a"}`, `{"type":"T","id":null}`,
		`{"__entity":null}`, `{"__entity":{}}`, `{"__entity":{"id":"a"}}`, `{"__entity":{"type":"T","id":"a"}}`, `{"__entity":{"type":1,"id":"a"}}`,
		`{"__extn":null}`, `{"__extn":{}}`, `{"__extn":{"fn":"decimal"}}`, `{"__extn":{"fn":"decimal","arg":null}}`, `{"__extn":{"fn":null,"arg":"1.0"}}`,
		`{"fn":"ip"}`, `{"fn":"ip","arg":"1.2.3.4"}`, `{"arg":"1.0"}`, `{"type":"T","id":"a"}`, `[null]`, `{"k":null}`, `"1.0"`, `true`}
	t := toks[vrt.Choice("token", len(toks))]
	switch vrt.Choice("slot", 12) {
	case 0:
		var m EntityMap
		_ = json.Unmarshal([]byte(`[{"uid":`+t+`,"parents":[],"attrs":{},"tags":{}}]`), &m)
	case 1:
		var m EntityMap
		_ = json.Unmarshal([]byte(`[{"uid":{"type":"T","id":"a"},"parents":[`+t+`],"attrs":{},"tags":{}}]`), &m)
	case 2:
		var e Entity
		if json.Unmarshal([]byte(`{"uid":{"type":"T","id":"a"},"parents":`+t+`,"attrs":{"x":`+t+`},"tags":{"y":`+t+`}}`), &e) == nil {
			_ = e.Equal(e)
			_, _ = e.MarshalJSON()
		}
	case 3:
		var u EntityUID
		if json.Unmarshal([]byte(t), &u) == nil {
			_ = u.String()
		}
	case 4:
		var d Decimal
		_ = json.Unmarshal([]byte(t), &d)
	case 5:
		var d Duration
		_ = json.Unmarshal([]byte(t), &d)
	case 6:
		var d Datetime
		_ = json.Unmarshal([]byte(t), &d)
	case 7:
		var d IPAddr
		_ = json.Unmarshal([]byte(t), &d)
	case 8:
		var s Set
		if json.Unmarshal([]byte(`[`+t+`,`+t+`]`), &s) == nil {
			_ = s.String()
			_, _ = s.MarshalJSON()
		}
	case 9:
		var r Record
		if json.Unmarshal([]byte(`{"a":`+t+`,"__entity":`+t+`}`), &r) == nil {
			_ = r.String()
			_, _ = r.MarshalJSON()
		}
	case 10:
		var p Pattern
		if json.Unmarshal([]byte(`["Wildcard",`+t+`,{"Literal":`+t+`}]`), &p) == nil {
			_, _ = p.MarshalJSON()
			_ = p.MarshalCedar()
		}
	case 11:
		var req Request
		_ = json.Unmarshal([]byte(`{"principal":`+t+`,"action":{"type":"Action","id":"a"},"resource":`+t+`,"context":`+t+`}`), &req)
		var d Decision
		_ = json.Unmarshal([]byte(t), &d)
		var g Diagnostic
		_ = json.Unmarshal([]byte(`{"reasons":[`+t+`],"errors":`+t+`}`), &g)
	}
	vrt.Cover("C10.entityjsontokens.checked")
	vrt.Assert("C10.entityjsontokens.no-panic", true)
}
