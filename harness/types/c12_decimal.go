//go:build verif

package types

import (
	"github.com/cedar-policy/cedar-go/internal/vrt"
)

// C12 (decimal): constructors are exact, the parser accepts exactly
// -?[0-9]+\.[0-9]{1,4} within range, printing and parsing are inverse.

// NewDecimal(i, e): e is a selector (so 10^e stays concrete), i is a symbolic int64.
// Oracle: success <=> i*10^(e+4) is representable, and then value is exactly that.
func VerifC12_NewDecimal() {
	vrt.Theory("int")
	e := vrt.Choice("exponent", 21) - 5 // -5 .. 15
	i := vrt.Int64("i")
	d, err := NewDecimal(i, e)
	if e < -4 || e > 14 {
		vrt.Cover("C12.newdecimal.bad-exponent")
		vrt.Assert("C12.newdecimal.exponent-range", err != nil)
		return
	}
	if e > 0 {
		vrt.Tag("exponent>0")
	}
	// exact scaled value: i * 10^(e+4); representable iff i lies between the
	// (concrete) quotients of MinInt64 and MaxInt64 by that power of ten
	p := int64(1)
	for k := 0; k < e+4; k++ {
		p *= 10
	}
	lo, hi := int64(-9223372036854775808)/p, int64(9223372036854775807)/p
	fits := vrt.And(i >= lo, i <= hi)
	scaled := i * p
	if vrt.ConcretizeBool(fits) {
		vrt.Cover("C12.newdecimal.fits")
		vrt.Assert("C12.newdecimal.accepts-representable", err == nil)
		vrt.Assert("C12.newdecimal.exact", d.value == scaled)
	} else {
		vrt.Cover("C12.newdecimal.overflow")
		vrt.Assert("C12.newdecimal.rejects-unrepresentable", err != nil)
	}
}

// digits returns n symbolic ASCII digits.
func c12Digits(label string, n int) []byte {
	b := vrt.Bytes(label, n)
	for _, c := range b {
		vrt.Assume(vrt.And(c >= '0', c <= '9'))
	}
	return b
}

func c12Val(b []byte) int64 {
	var v int64
	for _, c := range b {
		v = v*10 + int64(c-'0')
	}
	return v
}

// ParseDecimal on the structured templates [sign] d{1..k} . d{0..5}
func VerifC12_ParseDecimalTemplates() {
	vrt.Theory("bv")
	maxInt := 3
	if vrt.Thorough() {
		maxInt = 5
	}
	vrt.Bound("integer-digits", maxInt)
	sign := vrt.Choice("sign", 3) // none, '-', '+'
	ni := 1 + vrt.Choice("int-digits", maxInt)
	nf := vrt.Choice("frac-digits", 6)
	ip, fp := c12Digits("int", ni), c12Digits("frac", nf)
	s := ""
	switch sign {
	case 1:
		s = "-"
	case 2:
		s = "+"
	}
	s += string(ip) + "." + string(fp)
	d, err := ParseDecimal(s)
	ok := sign != 2 && nf >= 1 && nf <= 4
	if !ok {
		vrt.Cover("C12.parsedecimal.template-reject")
		if sign == 2 {
			vrt.Tag("leading-plus")
		}
		vrt.Assert("C12.parsedecimal.rejects-outside-grammar", err != nil)
		return
	}
	vrt.Cover("C12.parsedecimal.template-accept")
	vrt.Assert("C12.parsedecimal.accepts-grammar", err == nil)
	frac := c12Val(fp)
	for k := nf; k < 4; k++ {
		frac *= 10
	}
	want := c12Val(ip)*10000 + frac
	if sign == 1 {
		want = -want
	}
	vrt.Assert("C12.parsedecimal.exact", d.value == want)
}

// ParseDecimal on short arbitrary byte strings: accepted => matches the grammar.
func VerifC12_ParseDecimalBytes() {
	n := 1 + vrt.Choice("len", 3)
	if vrt.Thorough() {
		n = 1 + vrt.Choice("len", 4)
	}
	vrt.Bound("arbitrary-bytes", 4)
	b := vrt.Bytes("s", n)
	_, err := ParseDecimal(string(b))
	if err != nil {
		vrt.Cover("C12.parsedecimal.bytes-reject")
		return
	}
	vrt.Cover("C12.parsedecimal.bytes-accept")
	// grammar: -?[0-9]+\.[0-9]{1,4}
	i := 0
	if b[0] == '-' {
		i = 1
	}
	nd := 0
	for i < n && b[i] >= '0' && b[i] <= '9' {
		i++
		nd++
	}
	vrt.Assert("C12.parsedecimal.bytes.int-digits", nd >= 1)
	vrt.Assert("C12.parsedecimal.bytes.point", i < n && b[i] == '.')
	i++
	nf := 0
	for i < n && b[i] >= '0' && b[i] <= '9' {
		i++
		nf++
	}
	vrt.Assert("C12.parsedecimal.bytes.frac-digits", nf >= 1 && nf <= 4 && i == n)
}

// Round trip for every decimal value: ParseDecimal(d.String()) == d.
func VerifC12_DecimalRoundTrip() {
	vrt.Theory("int-cvc5")
	v := vrt.Int64("value")
	if !vrt.Thorough() {
		vrt.Assume(vrt.And(v > -1000000000, v < 1000000000))
		vrt.Bound("abs-value-below-quick-bound", 9)
	} else if k := vrt.Choice("value-class", 6); k == 0 {
		// the digit-sum identity over 19 digits is not decided within the caps by any of
		// the three solvers; 12 digits are, the int64 boundaries are separate concrete classes
		vrt.Assume(vrt.And(v > -1000000000000, v < 1000000000000))
		vrt.Bound("abs-symbolic-value-below-10^12-in-thorough-plus-5-boundary-values", 12)
	} else {
		v = []int64{-9223372036854775808, 9223372036854775807, -9223372036854775807, 1000000000000000000, -999999999999999999}[k-1]
	}
	d := Decimal{value: v}
	s := d.String()
	back, err := ParseDecimal(s)
	vrt.Cover("C12.decimal.roundtrip")
	vrt.Assert("C12.decimal.roundtrip.parses", err == nil)
	vrt.Assert("C12.decimal.roundtrip.same", back.value == v)
}
