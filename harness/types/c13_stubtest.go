//go:build verif

package types

import (
	"strconv"

	"github.com/cedar-policy/cedar-go/internal/vrt"
)

// VerifC13_StubSelfTest: the executor's model of encoding/json must reproduce
// the real package on the self-test vectors (see c13_stubcases.go).
func VerifC13_StubSelfTest() {
	got := c13StubCases()
	vrt.Assert("C13.stub.vector-count", len(got) == len(c13StubWant))
	for i := range got {
		if i < len(c13StubWant) && got[i] != c13StubWant[i] {
			vrt.Tag("vector-" + strconv.Itoa(i) + " got=" + got[i])
		}
		vrt.Assert("C13.stub.vector", i < len(c13StubWant) && got[i] == c13StubWant[i])
	}
	vrt.Cover("C13.stub.selftest")
}
