//go:build verif

package types

import (
	"github.com/cedar-policy/cedar-go/internal/vrt"
)

// C12 (duration): grammar -?(Nd)?(Nh)?(Nm)?(Ns)?(Nms)? (non-empty), exact sum,
// success <=> the signed sum fits int64; printing and parsing are inverse.

var c12Units = []struct {
	name string
	ms   int64
}{{"d", 86400000}, {"h", 3600000}, {"m", 60000}, {"s", 1000}, {"ms", 1}}

func VerifC12_ParseDurationTemplates() {
	vrt.Theory("int")
	neg := vrt.Choice("negative", 2) == 1
	mask := 1 + vrt.Choice("units", 31) // non-empty subset in canonical order
	nd := 1 + vrt.Choice("digits", 2)
	if vrt.Thorough() {
		nd = 1 + vrt.Choice("digits", 3)
	}
	vrt.Bound("quantity-digits", 3)
	s := ""
	if neg {
		s = "-"
	}
	var total int64
	for i, u := range c12Units {
		if mask&(1<<i) == 0 {
			continue
		}
		q := c12Digits("q", nd)
		s += string(q) + u.name
		total += c12Val(q) * u.ms
	}
	if neg {
		total = -total
	}
	d, err := ParseDuration(s)
	vrt.Cover("C12.parseduration.template-accept")
	vrt.Assert("C12.parseduration.accepts-grammar", err == nil)
	vrt.Assert("C12.parseduration.exact", d.value == total)
}

// Boundary quantities: 19-digit millisecond counts around MaxInt64, both signs.
func VerifC12_ParseDurationBoundary() {
	vrt.Theory("bv")
	neg := vrt.Choice("negative", 2) == 1
	// 922337203685477580X ms with a symbolic last digit
	last := c12Digits("last", 1)
	s := "922337203685477580" + string(last) + "ms"
	if neg {
		s = "-" + s
		vrt.Tag("negative")
	}
	d, err := ParseDuration(s)
	lastV := int64(last[0] - '0')
	representable := lastV <= 7 || (neg && lastV == 8)
	if vrt.ConcretizeBool(representable) {
		vrt.Cover("C12.parseduration.boundary-fits")
		if neg && vrt.ConcretizeBool(lastV == 8) {
			vrt.Tag("min-int64")
		}
		vrt.Assert("C12.parseduration.boundary.accepts-representable", err == nil)
		if err == nil {
			want := int64(9223372036854775800) + lastV
			if neg {
				want = -9223372036854775800 - lastV
			}
			vrt.Assert("C12.parseduration.boundary.exact", d.value == want)
		}
	} else {
		vrt.Cover("C12.parseduration.boundary-overflow")
		vrt.Assert("C12.parseduration.boundary.rejects", err != nil)
	}
}

// Wrong order, repeated unit, missing quantity, trailing quantity, empty: rejected.
func VerifC12_ParseDurationReject() {
	q := c12Digits("q", 1)
	forms := []string{
		string(q) + "h" + string(q) + "d", // wrong order
		string(q) + "d" + string(q) + "d", // repeated unit
		"d",                               // unit without quantity
		string(q),                         // quantity without unit
		"-",                               // sign only
		"",                                // empty
		string(q) + "d-" + string(q) + "h", // sign in the middle
		"+" + string(q) + "d",              // leading plus
		string(q) + "ms" + string(q) + "s", // ms before s
		string(q) + " d",                   // space
	}
	k := vrt.Choice("form", len(forms))
	_, err := ParseDuration(forms[k])
	vrt.Cover("C12.parseduration.reject")
	vrt.Assert("C12.parseduration.rejects-outside-grammar", err != nil)
}

// Round trip for every duration value.
func VerifC12_DurationRoundTrip() {
	vrt.Theory("int-cvc5")
	v := vrt.Int64("value")
	if !vrt.Thorough() {
		vrt.Assume(vrt.And(v > -10000000000, v < 10000000000))
		vrt.Bound("abs-value-below-quick-bound", 10)
	} else if k := vrt.Choice("value-class", 6); k == 0 {
		// the digit-sum identity over 19 digits is not decided within the caps by any of
		// the three solvers; 12 digits are, the int64 boundaries are separate concrete classes
		vrt.Assume(vrt.And(v > -1000000000000, v < 1000000000000))
		vrt.Bound("abs-symbolic-value-below-10^12-in-thorough-plus-5-boundary-values", 12)
	} else {
		v = []int64{-9223372036854775808, 9223372036854775807, -9223372036854775807, 1000000000000000000, -999999999999999999}[k-1]
	}
	if v == -9223372036854775808 {
		vrt.Tag("min-int64")
	}
	d := Duration{value: v}
	s := d.String()
	back, err := ParseDuration(s)
	vrt.Cover("C12.duration.roundtrip")
	vrt.Assert("C12.duration.roundtrip.parses", err == nil)
	vrt.Assert("C12.duration.roundtrip.same", back.value == v)
}
