//go:build verif

package types

import (
	"bytes"

	"github.com/cedar-policy/cedar-go/internal/vrt"
)

// C14 (entity / value JSON): the order in which cedar-go's own code hands
// members to the JSON encoder must not depend on map iteration order.  Inside
// the executor encoding/json.Marshal is a structural stub (DESIGN.md 0.3), so
// what is observed is exactly that order; parent type and id strings are
// symbolic so that the solver can search for ties in the sort comparators.
func VerifC14_EntityJSONOrder() {
	mk := func(label string) EntityUID {
		tl, il := 1+vrt.Choice(label+".type-len", 2), 1+vrt.Choice(label+".id-len", 2)
		t, id := vrt.Bytes(label+".type", tl), vrt.Bytes(label+".id", il)
		for _, c := range append(append([]byte{}, t...), id...) {
			vrt.Assume(vrt.And(c >= 'a', c <= 'c'))
		}
		return NewEntityUID(EntityType(t), String(id))
	}
	p1, p2 := mk("p1"), mk("p2")
	vrt.Assume(vrt.Not(vrt.And(vrt.EqString(string(p1.Type), string(p2.Type)), vrt.EqString(string(p1.ID), string(p2.ID)))))
	e := Entity{UID: NewEntityUID("T", "e"), Parents: NewEntityUIDSet(p1, p2),
		Attributes: NewRecord(RecordMap{"b": Long(1), "a": NewSet(Long(2), Long(1)), "c": NewRecord(RecordMap{"y": True, "x": False})}),
		Tags:       NewRecord(RecordMap{"t2": String("v"), "t1": String("w")})}
	other := Entity{UID: NewEntityUID("T", "a"), Parents: NewEntityUIDSet(e.UID)}
	em := EntityMap{e.UID: e, other.UID: other}
	want, err := e.MarshalJSON()
	vrt.Assert("C14.entityjson.encodes", err == nil)
	wantMap, err2 := em.MarshalJSON()
	vrt.Assert("C14.entityjson.map-encodes", err2 == nil)
	which := vrt.Choice("permuted-map-iteration", 12)
	vrt.Bound("one-permuted-map-iteration-per-path-among-first", 12)
	vrt.Cover("C14.entityjson.checked")
	for i := 0; i < vrt.Repeat(300); i++ {
		vrt.NondetMapOrderAt(which)
		got, _ := e.MarshalJSON()
		gotMap, _ := em.MarshalJSON()
		vrt.NondetMapOrder(false)
		if !bytes.Equal(got, want) {
			vrt.Tag("entity-json-order")
		}
		vrt.Assert("C14.entityjson.same-bytes", vrt.EqBytes(got, want))
		vrt.Assert("C14.entityjson.map-same-bytes", vrt.EqBytes(gotMap, wantMap))
	}
}
