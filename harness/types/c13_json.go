//go:build verif

package types

import (
	"encoding/json"
	"math"

	"github.com/cedar-policy/cedar-go/internal/vrt"
)

// C13: entity, value and request JSON round-trip without loss.
//
// cedar-go's own MarshalJSON/UnmarshalJSON methods, the value decoder's
// dispatch (types/json.go) and the struct layouts are executed symbolically;
// encoding/json itself is the executor's structural model (validated by
// VerifC13_StubSelfTest against the real package).  Payloads (longs, decimals,
// durations, booleans, a rune inside strings / ids / record keys) are solver
// variables, container shapes are selectors.

func c13Rune(label string) rune {
	r := vrt.Rune(label)
	if vrt.Thorough() {
		vrt.Assume(vrt.And(r >= 0, r <= 0x10FFFF))
		vrt.Assume(vrt.Or(r < 0xD800, r > 0xDFFF))
	} else if k := vrt.Choice(label+".rune-class", 7); k == 0 {
		vrt.Assume(vrt.And(r >= 0, r < 0x80))
		vrt.Bound("symbolic-rune-below-0x80-in-quick-plus-6-boundary-code-points", 0x80)
	} else {
		r = []rune{0xE9, 0x2028, 0x2029, 0xFFFD, 0x10000, 0x10FFFF}[k-1]
	}
	return r
}

func c13BoundLong(label string, v int64) {
	if vrt.Thorough() {
		vrt.Assume(vrt.And(v > -1000000000, v < 1000000000))
		vrt.Bound("abs-symbolic-long-below-10^9-in-thorough (boundary values are separate concrete classes)", 9)
	} else {
		vrt.Assume(vrt.And(v > -1000000, v < 1000000))
		vrt.Bound("abs-symbolic-long-below-10^6-in-quick (boundary values are separate concrete classes)", 6)
	}
}

// Decimal and Duration payloads: their text forms are the subject of C12 (full
// range there); here the JSON wrapping is, so a narrower range keeps the number
// of digit-count paths small.
func c13BoundExt(label string, v int64) {
	if vrt.Thorough() {
		vrt.Assume(vrt.And(v > -1000000, v < 1000000))
		vrt.Bound("abs-symbolic-decimal/duration-payload-below-10^6-in-thorough (boundary values are separate classes; text forms over 12 digits: C12)", 6)
	} else {
		vrt.Assume(vrt.And(v > -100000, v < 100000))
		vrt.Bound("abs-symbolic-decimal/duration-payload-below-10^5-in-quick (boundary values are separate classes; text forms at full range: C12)", 5)
	}
}

const c13ScalarClasses = 14

// c13Numeric: the value on this path carries a symbolic numeric payload.  Formatting
// the *decoded* payload a second time repeats every digit-count decision against
// the solver, so in the quick tier the byte-stability of the second encoding is
// checked only for the other classes (equality of the decoded value is always checked).
var c13Numeric bool

func c13Again() bool { return vrt.Thorough() || !c13Numeric }

// c13Scalar returns one scalar value of the chosen class.
func c13Scalar(label string, class int) Value {
	switch class {
	case 0, 7, 9:
		// digit arithmetic: integer encoding (cvc5); everything else stays in bit-vectors
		vrt.Theory("int-cvc5")
		c13Numeric = true
	}
	switch class {
	case 0:
		v := vrt.Int64(label + ".long")
		c13BoundLong(label, v)
		return Long(v)
	case 1:
		return Long([]int64{math.MinInt64, math.MaxInt64, 0, -1}[vrt.Choice(label+".long-boundary", 4)])
	case 2:
		return Boolean(vrt.Bool(label + ".bool"))
	case 3:
		return String("a" + string(c13Rune(label+".rune")) + "z")
	case 4:
		return String([]string{"", "\"\\/\b\f\n\r\t", "<>&\u2028\u2029", "\x00\x1f\x7f", "é\U0001F600", "__entity", "{\"__extn\":1}"}[vrt.Choice(label+".string", 7)])
	case 5:
		return NewEntityUID("T::U", String("i"+string(c13Rune(label+".id-rune"))))
	case 6:
		return NewEntityUID(EntityType([]string{"T", "A::B", ""}[vrt.Choice(label+".etype", 3)]), String([]string{"", "x y", "\"q\""}[vrt.Choice(label+".eid", 3)]))
	case 7:
		v := vrt.Int64(label + ".decimal")
		c13BoundExt(label, v)
		return Decimal{value: v}
	case 8:
		return Decimal{value: []int64{math.MinInt64, math.MaxInt64, 0, -1, 10000, -5}[vrt.Choice(label+".decimal-boundary", 6)]}
	case 9:
		v := vrt.Int64(label + ".duration")
		c13BoundExt(label, v)
		return Duration{value: v}
	case 10:
		return Duration{value: []int64{math.MinInt64, math.MaxInt64, 0, -1, 86400000, 90061001}[vrt.Choice(label+".duration-boundary", 6)]}
	case 11:
		return Datetime{value: []int64{0, -1, 1, 1700000000123, -62135596800000, 253402300799999, 86399999, -86400000}[vrt.Choice(label+".datetime", 8)]}
	case 12:
		ip, err := ParseIPAddr([]string{"1.2.3.4", "10.0.0.0/8", "::1", "ffee::/64", "0.0.0.0/0", "1.2.3.4/32"}[vrt.Choice(label+".ip", 6)])
		vrt.Assume(err == nil)
		return ip
	default:
		// an address with a symbolic prefix length (every length of both families)
		fam := vrt.Choice(label+".ip-family", 2)
		n := 1 + vrt.Choice(label+".prefix-digits", 3)
		if fam == 0 && n == 3 {
			n = 2
		}
		d := vrt.Bytes(label+".prefix-len", n)
		for i, c := range d {
			vrt.Assume(vrt.And(c >= '0', c <= '9'))
			if i == 0 && n > 1 {
				vrt.Assume(c != '0')
			}
		}
		ip, err := ParseIPAddr([]string{"10.1.2.3/", "2001:db8::1/"}[fam] + string(d))
		vrt.Assume(err == nil)
		return ip
	}
}

// c13Value: a scalar, or a set / record (depth <= 2) of scalars.
func c13Value(label string, depth int) Value {
	shapes := 1
	if depth > 0 {
		shapes = 6
		if c13NoMagic {
			shapes = 5
		}
	}
	// the second member of a container ranges over all classes only in the thorough tier
	second := func(l string) Value {
		if vrt.Thorough() {
			// more fixed companions, among them nested containers (depth 2) and values whose
			// hashes collide with the boundary classes (payload -1 in another kind)
			return []Value{Long(-1), String("\"\\<\u00e9"), NewEntityUID("T", "x"), Datetime{value: -1}, Decimal{value: 0},
				NewSet(Long(1), String("x")), NewRecord(RecordMap{"k": True, "__extn": Long(1)})}[vrt.Choice(l+".fixed", 7)]
		}
		// (a second symbolic member multiplies the paths through the hash-keyed set
		// and record maps: every pair of symbolic hashes may or may not collide)
		return []Value{Long(-1), String("\"\\<\u00e9"), NewEntityUID("T", "x")}[vrt.Choice(l+".fixed", 3)]
	}
	switch vrt.Choice(label+".shape", shapes) {
	case 0:
		if depth < c13Depth() {
			// inside a container the symbolic numeric payloads (classes 0, 7, 9) are left out
			// (digit arithmetic mixed with the hash-keyed maps did not finish in 40 minutes);
			// they are covered as top-level values, in the typed harness and in LongLiterals
			return c13Scalar(label, []int{1, 2, 3, 4, 5, 6, 8, 10, 11, 12, 13}[vrt.Choice(label+".member-class", 11)])
		}
		return c13Scalar(label, vrt.Choice(label+".class", c13ScalarClasses))
	case 1:
		return NewSet()
	case 2:
		return NewSet(c13Value(label+".e0", depth-1), second(label+".e1"))
	case 3:
		return NewRecord(RecordMap{})
	case 4:
		k := String("k" + string(c13Rune(label+".key-rune")))
		return NewRecord(RecordMap{k: c13Value(label+".v0", depth-1), "b": second(label + ".v1")})
	default:
		// keys that look like (but are not) the escape objects
		k := String([]string{"__extn", "__entity", "type", "fn", "__expr", ""}[vrt.Choice(label+".magic-key", 6)])
		class := []int{0, 2, 3, 5}[vrt.Choice(label+".magic-class", 4)]
		if (k == "__extn" || k == "__entity") && class == 5 {
			// a record whose reserved key holds an object-shaped value cannot be told from
			// the escape object itself (known finding, see known_findings.json)
			vrt.Tag("reserved-key-record")
		}
		return NewRecord(RecordMap{k: c13Scalar(label+".mv", class)})
	}
}

func c13SameKind(a, b Value) bool {
	switch a.(type) {
	case Long:
		_, ok := b.(Long)
		return ok
	case Boolean:
		_, ok := b.(Boolean)
		return ok
	case String:
		_, ok := b.(String)
		return ok
	case EntityUID:
		_, ok := b.(EntityUID)
		return ok
	case Set:
		_, ok := b.(Set)
		return ok
	case Record:
		_, ok := b.(Record)
		return ok
	case Decimal:
		_, ok := b.(Decimal)
		return ok
	case Duration:
		_, ok := b.(Duration)
		return ok
	case Datetime:
		_, ok := b.(Datetime)
		return ok
	case IPAddr:
		_, ok := b.(IPAddr)
		return ok
	}
	return false
}

// c13Depth: one level of symbolic nesting in both tiers (a second level made the
// thorough tier run past 45 minutes); the thorough tier nests fixed containers.
func c13Depth() int { return 1 }

// Every value survives value -> JSON -> value, with the same type tag, and the
// second encoding is byte-identical.
func VerifC13_ValueRoundTrip() {
	c13Numeric = false
	v := c13Value("v", c13Depth())
	b1, err := json.Marshal(v)
	vrt.Assert("C13.value.encodes", err == nil)
	var back Value
	err = UnmarshalJSON(b1, &back)
	vrt.Cover("C13.value.roundtrip")
	vrt.Assert("C13.value.decodes", err == nil)
	vrt.Assert("C13.value.same-kind", c13SameKind(v, back))
	vrt.Assert("C13.value.equal", v.Equal(back))
	vrt.Assert("C13.value.equal-symmetric", back.Equal(v))
	if c13Again() {
		b2, err := json.Marshal(back)
		vrt.Assert("C13.value.encodes-again", err == nil)
		vrt.Assert("C13.value.stable", vrt.EqBytes(b1, b2))
	}
}

// Typed destinations: a value of static type T round-trips through its own
// MarshalJSON / UnmarshalJSON pair (and through a struct field of that type).
func VerifC13_TypedRoundTrip() {
	c13Numeric = false
	type holder struct {
		S  Set       `json:"s"`
		R  Record    `json:"r"`
		U  EntityUID `json:"u"`
		D  Decimal   `json:"d"`
		Du Duration  `json:"du"`
		Dt Datetime  `json:"dt"`
		IP IPAddr    `json:"ip"`
		St String    `json:"st"`
		L  Long      `json:"l"`
		B  Boolean   `json:"b"`
	}
	var h holder
	// one field per path carries the varied (symbolic) content
	focus := vrt.Choice("focus", 10)
	pick := func(slot int, label string, classes []int, fixed Value) Value {
		if slot != focus {
			return fixed
		}
		return c13Scalar(label, classes[vrt.Choice(label+".class", len(classes))])
	}
	all := []int{0, 1, 2, 3, 4, 5, 6, 7, 8, 9, 10, 11, 12}
	ip, _ := ParseIPAddr("192.168.0.0/16")
	h.S = NewSet(pick(0, "s0", all, Long(3)), String("x"))
	h.R = NewRecord(RecordMap{"a": pick(1, "r0", all, True), "b": Long(2)})
	h.U = pick(2, "u", []int{5, 6}, NewEntityUID("T", "u")).(EntityUID)
	h.D = pick(3, "d", []int{7, 8}, Decimal{value: 15000}).(Decimal)
	h.Du = pick(4, "du", []int{9, 10}, Duration{value: 61001}).(Duration)
	h.Dt = pick(5, "dt", []int{11}, Datetime{value: 1234}).(Datetime)
	h.IP = pick(6, "ip", []int{12}, ip).(IPAddr)
	h.St = pick(7, "st", []int{3, 4}, String("str")).(String)
	h.L = pick(8, "l", []int{0, 1}, Long(42)).(Long)
	h.B = pick(9, "b", []int{2}, True).(Boolean)
	b1, err := json.Marshal(h)
	vrt.Assert("C13.typed.encodes", err == nil)
	var back holder
	err = json.Unmarshal(b1, &back)
	vrt.Cover("C13.typed.roundtrip")
	vrt.Assert("C13.typed.decodes", err == nil)
	vrt.Assert("C13.typed.set", h.S.Equal(back.S))
	vrt.Assert("C13.typed.record", h.R.Equal(back.R))
	vrt.Assert("C13.typed.uid", h.U.Equal(back.U))
	vrt.Assert("C13.typed.decimal", h.D.Equal(back.D))
	vrt.Assert("C13.typed.duration", h.Du.Equal(back.Du))
	vrt.Assert("C13.typed.datetime", h.Dt.Equal(back.Dt))
	vrt.Assert("C13.typed.ip", h.IP.Equal(back.IP))
	vrt.Assert("C13.typed.string", h.St.Equal(back.St))
	vrt.Assert("C13.typed.long", h.L.Equal(back.L))
	vrt.Assert("C13.typed.bool", h.B.Equal(back.B))
	if c13Again() {
		b2, err := json.Marshal(back)
		vrt.Assert("C13.typed.encodes-again", err == nil)
		vrt.Assert("C13.typed.stable", vrt.EqBytes(b1, b2))
	}
}

// c13Focus: one component per path carries symbolic content, the others are
// fixed; otherwise the digit-count / escape-class forks of every component
// multiply (38 x 38 x ... paths).
var c13FocusOn int

// c13NoMagic leaves the reserved-key records (one known finding, reported by
// VerifC13_ValueRoundTrip) out of the values nested in entities.
var c13NoMagic bool

func c13UID(label string, slot int) EntityUID {
	t := EntityType([]string{"T", "N::T"}[vrt.Choice(label+".type", 2)])
	if slot != c13FocusOn {
		return NewEntityUID(t, String("e-"+label))
	}
	return NewEntityUID(t, String("e"+string(c13Rune(label+".id"))))
}

func c13Entity(label string) Entity {
	c13FocusOn = vrt.Choice(label+".focus", 5)
	e := Entity{UID: c13UID(label+".uid", 0)}
	// the component in focus takes every shape; the others one fixed shape each
	parents, attrs, tags := 2, 1, 2
	switch c13FocusOn {
	case 1:
		parents = vrt.Choice(label+".parents", 3)
	case 2, 3:
		attrs = vrt.Choice(label+".attrs", 3)
	case 4:
		tags = vrt.Choice(label+".tags", 3)
	}
	switch parents {
	case 0:
		e.Parents = NewEntityUIDSet()
	case 1:
		e.Parents = NewEntityUIDSet(c13UID(label+".p0", 1))
	case 2:
		e.Parents = NewEntityUIDSet(c13UID(label+".p0", 1), NewEntityUID("P", "fixed"))
	}
	switch attrs {
	case 0:
		e.Attributes = NewRecord(RecordMap{})
	case 1:
		if c13FocusOn == 2 {
			c13NoMagic = true
			e.Attributes = NewRecord(RecordMap{"a": c13Scalar(label+".attr", vrt.Choice(label+".attr-class", c13ScalarClasses))})
			c13NoMagic = false
		} else {
			e.Attributes = NewRecord(RecordMap{"a": NewSet(Long(1), String("s"))})
		}
	case 2:
		n := Long(7)
		if c13FocusOn == 3 {
			x := vrt.Int64(label + ".n")
			vrt.Theory("int-cvc5")
			c13Numeric = true
			c13BoundExt(label, x)
			n = Long(x)
		}
		e.Attributes = NewRecord(RecordMap{"owner": c13UID(label+".ref", -1), "n": n})
	}
	switch tags {
	case 0:
		// zero Record: no tags at all
	case 1:
		e.Tags = NewRecord(RecordMap{})
	case 2:
		if c13FocusOn == 4 {
			e.Tags = NewRecord(RecordMap{"t": c13Scalar(label+".tag", vrt.Choice(label+".tag-class", c13ScalarClasses))})
		} else {
			e.Tags = NewRecord(RecordMap{"t": String("tag")})
		}
	}
	return e
}

// Entities and entity maps.
func VerifC13_EntityRoundTrip() {
	c13Numeric = false
	e := c13Entity("e")
	b1, err := json.Marshal(e)
	vrt.Assert("C13.entity.encodes", err == nil)
	var back Entity
	err = json.Unmarshal(b1, &back)
	vrt.Cover("C13.entity.roundtrip")
	vrt.Assert("C13.entity.decodes", err == nil)
	vrt.Assert("C13.entity.uid", e.UID.Equal(back.UID))
	vrt.Assert("C13.entity.parents", e.Parents.Equal(back.Parents))
	vrt.Assert("C13.entity.attrs", e.Attributes.Equal(back.Attributes))
	vrt.Assert("C13.entity.tags", e.Tags.Equal(back.Tags))
	vrt.Assert("C13.entity.equal", e.Equal(back))
	if c13Again() {
		b2, err := json.Marshal(back)
		vrt.Assert("C13.entity.encodes-again", err == nil)
		vrt.Assert("C13.entity.stable", vrt.EqBytes(b1, b2))
	}
}

func VerifC13_EntityMapRoundTrip() {
	c13Numeric = false
	e1 := c13Entity("e1")
	e2 := Entity{UID: NewEntityUID("Z", "other"), Parents: NewEntityUIDSet(e1.UID), Attributes: NewRecord(RecordMap{"x": True})}
	m := EntityMap{e1.UID: e1}
	if vrt.Choice("entities", 2) == 1 {
		m[e2.UID] = e2
	}
	b1, err := json.Marshal(m)
	vrt.Assert("C13.entitymap.encodes", err == nil)
	var back EntityMap
	err = json.Unmarshal(b1, &back)
	vrt.Cover("C13.entitymap.roundtrip")
	vrt.Assert("C13.entitymap.decodes", err == nil)
	vrt.Assert("C13.entitymap.size", len(back) == len(m))
	for uid, ent := range m {
		got, ok := back[uid]
		vrt.Assert("C13.entitymap.member", ok)
		vrt.Assert("C13.entitymap.member-equal", ent.Equal(got))
	}
	if c13Again() {
		b2, err := json.Marshal(back)
		vrt.Assert("C13.entitymap.encodes-again", err == nil)
		vrt.Assert("C13.entitymap.stable", vrt.EqBytes(b1, b2))
	}
}

// Entity maps over arbitrary short UIDs: type and id are symbolic strings over an
// alphabet that contains the separators the encoders use (`::`, quotes), so any
// two distinct UIDs must stay distinct entities through the JSON round trip.
func VerifC13_EntityMapUIDs() {
	maxLen := 1
	if vrt.Thorough() {
		maxLen = 2
	}
	vrt.Bound("uid-type-and-id-length", maxLen)
	mk := func(label string) EntityUID {
		tl, il := vrt.Choice(label+".type-len", maxLen+1), vrt.Choice(label+".id-len", maxLen+1)
		t, id := vrt.Bytes(label+".type", tl), vrt.Bytes(label+".id", il)
		for _, c := range append(append([]byte{}, t...), id...) {
			vrt.Assume(vrt.Or(vrt.Or(c == ':', c == 'a'), vrt.Or(c == '"', c == '\\')))
		}
		return NewEntityUID(EntityType(t), String(id))
	}
	u1, u2 := mk("u1"), mk("u2")
	vrt.Assume(vrt.Not(vrt.And(vrt.EqString(string(u1.Type), string(u2.Type)), vrt.EqString(string(u1.ID), string(u2.ID)))))
	m := EntityMap{
		u1: Entity{UID: u1, Attributes: NewRecord(RecordMap{"n": Long(1)})},
		u2: Entity{UID: u2, Parents: NewEntityUIDSet(u1), Attributes: NewRecord(RecordMap{"n": Long(2)})},
	}
	b1, err := json.Marshal(m)
	vrt.Assert("C13.entitymap-uids.encodes", err == nil)
	var back EntityMap
	err = json.Unmarshal(b1, &back)
	vrt.Cover("C13.entitymap-uids.roundtrip")
	vrt.Assert("C13.entitymap-uids.decodes", err == nil)
	vrt.Assert("C13.entitymap-uids.size", len(back) == 2)
	g1, ok1 := back.Get(u1)
	g2, ok2 := back.Get(u2)
	vrt.Assert("C13.entitymap-uids.members", ok1 && ok2)
	vrt.Assert("C13.entitymap-uids.member-equal", m[u1].Equal(g1) && m[u2].Equal(g2))
	b2, err := json.Marshal(back)
	vrt.Assert("C13.entitymap-uids.encodes-again", err == nil)
	vrt.Assert("C13.entitymap-uids.stable", vrt.EqBytes(b1, b2))
}

// Requests.
func VerifC13_Request() {
	c13Numeric = false
	c13FocusOn = vrt.Choice("focus", 3)
	req := Request{Principal: c13UID("p", 0), Action: NewEntityUID("Action", "view"), Resource: c13UID("r", 1), Context: NewRecord(RecordMap{"k": Long(1)})}
	if c13FocusOn == 2 {
		switch vrt.Choice("context", 3) {
		case 0:
			req.Context = NewRecord(RecordMap{"k": c13Scalar("ctx", vrt.Choice("ctx.class", c13ScalarClasses))})
		case 1:
			req.Context = Record{}
		case 2:
			req.Context = NewRecord(RecordMap{})
		}
	}
	b1, err := json.Marshal(req)
	vrt.Assert("C13.request.encodes", err == nil)
	var back Request
	err = json.Unmarshal(b1, &back)
	vrt.Cover("C13.request.roundtrip")
	vrt.Assert("C13.request.decodes", err == nil)
	vrt.Assert("C13.request.principal", req.Principal.Equal(back.Principal))
	vrt.Assert("C13.request.action", req.Action.Equal(back.Action))
	vrt.Assert("C13.request.resource", req.Resource.Equal(back.Resource))
	vrt.Assert("C13.request.context", req.Context.Equal(back.Context))
	if c13Again() {
		b2, _ := json.Marshal(back)
		vrt.Assert("C13.request.stable", vrt.EqBytes(b1, b2))
	}
}

// Decisions and diagnostics.
func VerifC13_Diagnostic() {
	dec := Decision(vrt.Bool("decision"))
	db, err := json.Marshal(dec)
	vrt.Assert("C13.decision.encodes", err == nil)
	var dback Decision
	vrt.Assert("C13.decision.decodes", json.Unmarshal(db, &dback) == nil)
	vrt.Assert("C13.decision.equal", dec == dback)

	var diag Diagnostic
	pos := Position{Filename: "f.cedar", Offset: 12, Line: 3, Column: 4}
	pid, msg := PolicyID("policy0"), "while evaluating: <type error>"
	switch vrt.Choice("focus", 6) {
	case 0:
		pos.Filename = "f" + string(c13Rune("file-rune"))
	case 1:
		vrt.Theory("int-cvc5")
		pos.Offset = int(vrt.IntRange("offset", 0, 1000000))
	case 2:
		vrt.Theory("int-cvc5")
		pos.Line = int(vrt.IntRange("line", -5, 100000))
	case 3:
		vrt.Theory("int-cvc5")
		pos.Column = int(vrt.IntRange("column", 0, 1000))
	case 4:
		pid = PolicyID("p" + string(c13Rune("pid-rune")))
	case 5:
		msg = "m<" + string(c13Rune("msg-rune")) + ">"
	}
	switch vrt.Choice("diag", 4) {
	case 1:
		diag.Reasons = []DiagnosticReason{{PolicyID: pid, Position: pos}}
	case 2:
		diag.Errors = []DiagnosticError{{PolicyID: pid, Position: pos, Message: msg}}
	case 3:
		diag.Reasons = []DiagnosticReason{{PolicyID: "a", Position: pos}, {PolicyID: pid}}
		diag.Errors = []DiagnosticError{{PolicyID: "c", Message: msg}}
	}
	gb, err := json.Marshal(diag)
	vrt.Cover("C13.diagnostic.roundtrip")
	vrt.Assert("C13.diagnostic.encodes", err == nil)
	var gback Diagnostic
	vrt.Assert("C13.diagnostic.decodes", json.Unmarshal(gb, &gback) == nil)
	vrt.Assert("C13.diagnostic.reasons", len(gback.Reasons) == len(diag.Reasons))
	vrt.Assert("C13.diagnostic.errors", len(gback.Errors) == len(diag.Errors))
	for i := range diag.Reasons {
		vrt.Assert("C13.diagnostic.reason-equal", i < len(gback.Reasons) && gback.Reasons[i] == diag.Reasons[i])
	}
	for i := range diag.Errors {
		vrt.Assert("C13.diagnostic.error-equal", i < len(gback.Errors) && gback.Errors[i] == diag.Errors[i])
	}
	gb2, _ := json.Marshal(gback)
	vrt.Assert("C13.diagnostic.stable", vrt.EqBytes(gb, gb2))
}

func c13Digits(label string, n int) []byte {
	d := vrt.Bytes(label, n)
	for _, c := range d {
		vrt.Assume(vrt.And(c >= '0', c <= '9'))
	}
	return d
}

func c13Cat(parts ...any) []byte {
	var out []byte
	for _, p := range parts {
		switch x := p.(type) {
		case string:
			out = append(out, x...)
		case []byte:
			out = append(out, x...)
		}
	}
	return out
}

// All accepted spellings of one datum decode to equal values: the explicit
// __extn / __entity escapes, the implicit object form and the bare string form
// (typed destinations), with any member order and insignificant space.
func VerifC13_Spellings() {
	vrt.Theory("int-cvc5")
	switch vrt.Choice("kind", 5) {
	case 0: // decimal: symbolic digits
		arg := c13Cat([]string{"", "-"}[vrt.Choice("sign", 2)], c13Digits("int", 1+vrt.Choice("int-len", 3)), ".", c13Digits("frac", 1+vrt.Choice("frac-len", 4)))
		var a, b, c, d Decimal
		ea := json.Unmarshal(c13Cat(`{"__extn":{"fn":"decimal","arg":"`, arg, `"}}`), &a)
		eb := json.Unmarshal(c13Cat(` { "arg" : "`, arg, `" , "fn" : "decimal" } `), &b)
		ec := json.Unmarshal(c13Cat(`"`, arg, `"`), &c)
		ed := json.Unmarshal(c13Cat(`{"__extn":{"arg":"`, arg, `","fn":"decimal"}}`), &d)
		var v Value
		ev := UnmarshalJSON(c13Cat(`{"__extn":{"fn":"decimal","arg":"`, arg, `"}}`), &v)
		ref, eref := ParseDecimal(string(arg))
		vrt.Cover("C13.spellings.decimal")
		vrt.Assert("C13.spellings.decimal.accept-agree", (ea == nil) == (eref == nil) && (eb == nil) == (eref == nil) && (ec == nil) == (eref == nil) && (ed == nil) == (eref == nil) && (ev == nil) == (eref == nil))
		if eref == nil {
			vrt.Assert("C13.spellings.decimal.equal", a == ref && b == ref && c == ref && d == ref)
			vd, ok := v.(Decimal)
			vrt.Assert("C13.spellings.decimal.value", ok && vd == ref)
		}
		var wrong Duration
		vrt.Assert("C13.spellings.decimal.fn-mismatch-rejected", json.Unmarshal(c13Cat(`{"__extn":{"fn":"decimal","arg":"`, arg, `"}}`), &wrong) != nil)
	case 1: // duration
		arg := c13Cat([]string{"", "-"}[vrt.Choice("sign", 2)], c13Digits("n", 1+vrt.Choice("n-len", 3)), []string{"ms", "s", "m", "h", "d"}[vrt.Choice("unit", 5)])
		var a, b, c Duration
		ea := json.Unmarshal(c13Cat(`{"__extn":{"fn":"duration","arg":"`, arg, `"}}`), &a)
		eb := json.Unmarshal(c13Cat(`{"fn":"duration","arg":"`, arg, `"}`), &b)
		ec := json.Unmarshal(c13Cat(`"`, arg, `"`), &c)
		var v Value
		ev := UnmarshalJSON(c13Cat(`{ "__extn" : { "fn" : "duration" , "arg" : "`, arg, `" } }`), &v)
		ref, eref := ParseDuration(string(arg))
		vrt.Cover("C13.spellings.duration")
		vrt.Assert("C13.spellings.duration.accept-agree", (ea == nil) == (eref == nil) && (eb == nil) == (eref == nil) && (ec == nil) == (eref == nil) && (ev == nil) == (eref == nil))
		if eref == nil {
			vrt.Assert("C13.spellings.duration.equal", a == ref && b == ref && c == ref)
			vd, ok := v.(Duration)
			vrt.Assert("C13.spellings.duration.value", ok && vd == ref)
		}
	case 2: // entity uid: explicit, implicit, member order, extra members
		id := "i" + string(c13Rune("id-rune"))
		qb, _ := json.Marshal(id)
		var a, b, c, d EntityUID
		ea := json.Unmarshal(c13Cat(`{"__entity":{"type":"A::B","id":`, qb, `}}`), &a)
		eb := json.Unmarshal(c13Cat(`{"type":"A::B","id":`, qb, `}`), &b)
		ec := json.Unmarshal(c13Cat(`{"id":`, qb, `,"type":"A::B"}`), &c)
		ed := json.Unmarshal(c13Cat(`{"__entity":{"id":`, qb, `,"type":"A::B"}}`), &d)
		var v Value
		ev := UnmarshalJSON(c13Cat(`{"__entity":{"type":"A::B","id":`, qb, `}}`), &v)
		want := NewEntityUID("A::B", String(id))
		vrt.Cover("C13.spellings.entity")
		vrt.Assert("C13.spellings.entity.accepted", ea == nil && eb == nil && ec == nil && ed == nil && ev == nil)
		vrt.Assert("C13.spellings.entity.equal", a.Equal(want) && b.Equal(want) && c.Equal(want) && d.Equal(want))
		vu, ok := v.(EntityUID)
		vrt.Assert("C13.spellings.entity.value", ok && vu.Equal(want))
		var e EntityUID
		vrt.Assert("C13.spellings.entity.partial-rejected", json.Unmarshal(c13Cat(`{"id":`, qb, `}`), &e) != nil)
	case 3: // datetime / ip: concrete arguments, three spellings
		arg := []string{"1970-01-01", "2024-02-29T12:34:56Z", "2024-02-29T12:34:56.789+0130", "1969-12-31T23:59:59.999Z", "2024-02-30", "x"}[vrt.Choice("datetime-arg", 6)]
		var a, b, c Datetime
		ea := json.Unmarshal(c13Cat(`{"__extn":{"fn":"datetime","arg":"`, arg, `"}}`), &a)
		eb := json.Unmarshal(c13Cat(`{"fn":"datetime","arg":"`, arg, `"}`), &b)
		ec := json.Unmarshal(c13Cat(`"`, arg, `"`), &c)
		ref, eref := ParseDatetime(arg)
		vrt.Cover("C13.spellings.datetime")
		vrt.Assert("C13.spellings.datetime.accept-agree", (ea == nil) == (eref == nil) && (eb == nil) == (eref == nil) && (ec == nil) == (eref == nil))
		if eref == nil {
			vrt.Assert("C13.spellings.datetime.equal", a == ref && b == ref && c == ref)
		}
	case 4:
		arg := []string{"1.2.3.4", "1.2.3.4/24", "::ffff:1.2.3.4", "fe80::1/64", "1.2.3", "1.2.3.4/33"}[vrt.Choice("ip-arg", 6)]
		var a, b, c IPAddr
		ea := json.Unmarshal(c13Cat(`{"__extn":{"fn":"ip","arg":"`, arg, `"}}`), &a)
		eb := json.Unmarshal(c13Cat(`{"fn":"ip","arg":"`, arg, `"}`), &b)
		ec := json.Unmarshal(c13Cat(`"`, arg, `"`), &c)
		ref, eref := ParseIPAddr(arg)
		vrt.Cover("C13.spellings.ip")
		vrt.Assert("C13.spellings.ip.accept-agree", (ea == nil) == (eref == nil) && (eb == nil) == (eref == nil) && (ec == nil) == (eref == nil))
		if eref == nil {
			vrt.Assert("C13.spellings.ip.equal", a.Equal(ref) && b.Equal(ref) && c.Equal(ref))
		}
	}
}

// Longs written as JSON numbers: every int64 literal is accepted exactly, the
// two neighbours of the range are rejected, non-integers are rejected.
func VerifC13_LongLiterals() {
	vrt.Theory("int-cvc5")
	switch vrt.Choice("form", 3) {
	case 0:
		doc := []string{"9223372036854775807", "-9223372036854775808", "9223372036854775808", "-9223372036854775809", "1.0", "1e2", "-0", "+1", " 7 ", "18446744073709551616", "1.5", "-"}[vrt.Choice("doc", 12)]
		var v Value
		err := UnmarshalJSON([]byte(doc), &v)
		vrt.Cover("C13.long.literals")
		switch doc {
		case "9223372036854775807":
			vrt.Assert("C13.long.max", err == nil && v.Equal(Long(math.MaxInt64)))
		case "-9223372036854775808":
			vrt.Assert("C13.long.min", err == nil && v.Equal(Long(math.MinInt64)))
		case "-0":
			vrt.Assert("C13.long.negative-zero", err == nil && v.Equal(Long(0)))
		case " 7 ":
			vrt.Assert("C13.long.spaces", err == nil && v.Equal(Long(7)))
		default:
			vrt.Assert("C13.long.rejected", err != nil)
		}
	case 1:
		// symbolic digit string of up to 6 digits: exact value
		n := 1 + vrt.Choice("len", 6)
		d := c13Digits("d", n)
		vrt.Assume(vrt.Or(n == 1, d[0] != '0'))
		neg := vrt.Choice("neg", 2) == 1
		doc := d
		if neg {
			doc = c13Cat("-", d)
		}
		var want int64
		for _, c := range d {
			want = want*10 + int64(c-'0')
		}
		if neg {
			want = -want
		}
		var v Value
		err := UnmarshalJSON(doc, &v)
		vrt.Cover("C13.long.digits")
		vrt.Assert("C13.long.digits.accepted", err == nil)
		l, ok := v.(Long)
		vrt.Assert("C13.long.digits.value", ok && int64(l) == want)
	case 2:
		// inside a record and a set, next to other members
		x := vrt.Int64("x")
		c13BoundLong("x", x)
		b, err := json.Marshal(NewRecord(RecordMap{"n": Long(x), "s": NewSet(Long(x), Long(1))}))
		vrt.Assert("C13.long.nested.encodes", err == nil)
		var r Record
		vrt.Assert("C13.long.nested.decodes", json.Unmarshal(b, &r) == nil)
		got, ok := r.Get("n")
		vrt.Cover("C13.long.nested")
		vrt.Assert("C13.long.nested.value", ok && got.Equal(Long(x)))
	}
}
