//go:build verif

package cedar

import (
	"bytes"
	"sort"

	"github.com/cedar-policy/cedar-go/ast"
	"github.com/cedar-policy/cedar-go/internal/vrt"
	"github.com/cedar-policy/cedar-go/types"
)

// C20: a PolicySet behaves as an id-keyed map over any bounded history of
// operations.  The operation and id at each step are selectors; each policy's
// satisfaction is a symbolic context bit; the oracle is a plain Go map updated
// alongside plus the decision table over its contents.

type c20Pol struct {
	forbid bool
	bit    types.String
	pol    *Policy
}

func c20Pols() []c20Pol {
	mk := func(forbid bool, bit types.String) c20Pol {
		a := ast.Permit()
		if forbid {
			a = ast.Forbid()
		}
		return c20Pol{forbid: forbid, bit: bit, pol: NewPolicyFromAST(a.When(ast.Context().Access(bit)))}
	}
	return []c20Pol{mk(false, "s0"), mk(true, "s1"), mk(false, "s2")}
}

func c20Expect(model map[PolicyID]int, pols []c20Pol, bits map[types.String]bool) (Decision, map[PolicyID]bool) {
	anyF, anyP := false, false
	for _, k := range model {
		if vrt.ConcretizeBool(bits[pols[k].bit]) {
			if pols[k].forbid {
				anyF = true
			} else {
				anyP = true
			}
		}
	}
	reasons := map[PolicyID]bool{}
	for id, k := range model {
		if vrt.ConcretizeBool(bits[pols[k].bit]) && pols[k].forbid == anyF {
			reasons[id] = true
		}
	}
	return Decision(anyP && !anyF), reasons
}

func c20CheckAuthorize(ps *PolicySet, model map[PolicyID]int, pols []c20Pol, bits map[types.String]bool, req Request, label string) {
	dec, diag := Authorize(ps, nil, req)
	wantDec, wantReasons := c20Expect(model, pols, bits)
	vrt.Assert("C20.authorize.decision", dec == wantDec)
	vrt.Assert("C20.authorize.reason-count", len(diag.Reasons) == len(wantReasons))
	for _, r := range diag.Reasons {
		vrt.Assert("C20.authorize.reason-member", wantReasons[r.PolicyID])
	}
	vrt.Assert("C20.authorize.no-errors", len(diag.Errors) == 0)
}

func VerifC20_History() {
	steps := 3
	if vrt.Thorough() {
		steps = 4
	}
	vrt.Bound("history-length", steps)
	pols := c20Pols()
	// ids of different lengths whose length order and lexicographic order disagree
	ids := []PolicyID{"b", "ab"}
	bits := map[types.String]bool{}
	ctx := types.RecordMap{}
	for _, p := range pols {
		b := vrt.Bool(string(p.bit))
		bits[p.bit] = b
		ctx[p.bit] = types.Boolean(b)
	}
	req := Request{Principal: types.NewEntityUID("U", "u"), Action: types.NewEntityUID("Action", "x"), Resource: types.NewEntityUID("R", "r"), Context: types.NewRecord(ctx)}
	ps := NewPolicySet()
	model := map[PolicyID]int{}
	// after a JSON load the set holds decoded copies: compared by their Cedar text
	loaded := false
	same := func(p *Policy, k int) bool {
		if p == nil {
			return false
		}
		if !loaded {
			return p == pols[k].pol
		}
		return bytes.Equal(p.MarshalCedar(), pols[k].pol.MarshalCedar())
	}
	var saved []byte
	var savedModel map[PolicyID]int
	for s := 0; s < steps; s++ {
		switch vrt.Choice("op", 9) {
		case 0: // add / replace
			id := ids[vrt.Choice("id", len(ids))]
			k := vrt.Choice("policy", len(pols))
			_, existed := model[id]
			fresh := ps.Add(id, pols[k].pol)
			model[id] = k
			vrt.Cover("C20.add")
			vrt.Assert("C20.add.returns-fresh", fresh == !existed)
		case 1: // remove
			id := ids[vrt.Choice("id", len(ids))]
			_, existed := model[id]
			got := ps.Remove(id)
			delete(model, id)
			vrt.Cover("C20.remove")
			vrt.Assert("C20.remove.returns-existed", got == existed)
		case 2: // lookup
			id := ids[vrt.Choice("id", len(ids))]
			k, existed := model[id]
			p := ps.Get(id)
			vrt.Cover("C20.get")
			vrt.Assert("C20.get.presence", (p != nil) == existed)
			if existed {
				vrt.Assert("C20.get.identity", same(p, k))
			}
		case 3: // copy and mutate the copy
			m := ps.Map()
			vrt.Cover("C20.map")
			vrt.Assert("C20.map.size", len(m) == len(model))
			for id, k := range model {
				vrt.Assert("C20.map.entry", same(m[id], k))
			}
			m["zz"] = pols[0].pol
			delete(m, "b")
			vrt.Assert("C20.map.copy-is-independent", ps.Get("zz") == nil && ((ps.Get("b") != nil) == (func() bool { _, ok := model["b"]; return ok })()))
		case 4: // iterate
			n := 0
			for id, p := range ps.All() {
				k, ok := model[id]
				vrt.Assert("C20.all.entry", ok && same(p, k))
				n++
			}
			vrt.Cover("C20.all")
			vrt.Assert("C20.all.count", n == len(model))
		case 5: // authorize
			vrt.Cover("C20.authorize")
			c20CheckAuthorize(ps, model, pols, bits, req, "mid")
		case 6: // marshal, reload: ids policy0.. in lexicographic order of the old ids, file name stamped
			vrt.Cover("C20.reload")
			c20CheckReload(ps, model, pols, bits, req)
		case 7: // JSON snapshot: ids are preserved, a fresh set decodes to the same contents
			b, err := ps.MarshalJSON()
			vrt.Cover("C20.json-save")
			vrt.Assert("C20.json.encodes", err == nil)
			var ps3 PolicySet
			vrt.Assert("C20.json.decodes", ps3.UnmarshalJSON(b) == nil)
			n := 0
			for id, p := range ps3.All() {
				k, ok := model[id]
				vrt.Assert("C20.json.entry", ok && bytes.Equal(p.MarshalCedar(), pols[k].pol.MarshalCedar()))
				n++
			}
			vrt.Assert("C20.json.count", n == len(model))
			c20CheckAuthorize(&ps3, model, pols, bits, req, "json")
			saved = b
			savedModel = map[PolicyID]int{}
			for id, k := range model {
				savedModel[id] = k
			}
		case 8: // load the snapshot into the live set: its contents replace whatever the set held
			if saved == nil {
				vrt.Assume(false)
			}
			vrt.Cover("C20.json-load")
			vrt.Assert("C20.json.load-decodes", ps.UnmarshalJSON(saved) == nil)
			model = map[PolicyID]int{}
			for id, k := range savedModel {
				model[id] = k
			}
			loaded = true
			n := 0
			for id, p := range ps.All() {
				k, ok := model[id]
				vrt.Assert("C20.json.load-entry", ok && same(p, k))
				n++
			}
			vrt.Assert("C20.json.load-count", n == len(model))
		}
	}
	c20CheckAuthorize(ps, model, pols, bits, req, "final")
	// every history ends with the text emission compared against the model (a stale
	// cache shows on the observation *after* the operation that should have invalidated it)
	c20CheckReload(ps, model, pols, bits, req)
}

// c20CheckReload: MarshalCedar emits exactly the model's policies in lexicographic id
// order; reloading assigns policy0.. in that order with the file name stamped, and
// the reloaded set authorizes like the model.
func c20CheckReload(ps *PolicySet, model map[PolicyID]int, pols []c20Pol, bits map[types.String]bool, req Request) {
	text := ps.MarshalCedar()
	ps2, err := NewPolicySetFromBytes("f.cedar", text)
	vrt.Assert("C20.reload.parses", err == nil)
	var old []string
	for id := range model {
		old = append(old, string(id))
	}
	sort.Strings(old)
	model2 := map[PolicyID]int{}
	n := 0
	for range ps2.All() {
		n++
	}
	vrt.Assert("C20.reload.count", n == len(old))
	for i, id := range old {
		nid := PolicyID("policy" + string(rune('0'+i)))
		p := ps2.Get(nid)
		vrt.Assert("C20.reload.ids-in-document-order", p != nil)
		if p != nil {
			vrt.Assert("C20.reload.effect", p.Effect() == pols[model[PolicyID(id)]].pol.Effect())
			vrt.Assert("C20.reload.same-policy", bytes.Equal(p.MarshalCedar(), pols[model[PolicyID(id)]].pol.MarshalCedar()))
			vrt.Assert("C20.reload.filename", p.Position().Filename == "f.cedar")
		}
		model2[nid] = model[PolicyID(id)]
	}
	// authorization depends only on the contents
	c20CheckAuthorize(ps2, model2, pols, bits, req, "reloaded")
}
