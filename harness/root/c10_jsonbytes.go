//go:build verif

package cedar

import (
	"github.com/cedar-policy/cedar-go/internal/vrt"
)

// C10 at the JSON byte level: W fully symbolic bytes (any values) at several
// places of a policy JSON document and of a policy-set JSON document.  The
// executor's model of encoding/json scans the bytes (every test on a symbolic
// byte is a solver-decided fork) and hands cedar-go's UnmarshalJSON methods what
// the real package would; a panic or a budget overrun in cedar-go's code is the
// violation, an accepted policy is rendered, re-encoded, compiled and evaluated.
func VerifC10_PolicyJSONWindow() {
	w := 2
	if vrt.Thorough() {
		w = 3
	}
	vrt.Bound("window-bytes", w)
	b := string(vrt.Bytes("w", w))
	var doc string
	switch vrt.Choice("place", 8) {
	case 0: // the whole condition body
		doc = `{"effect":"permit","principal":{"op":"All"},"action":{"op":"All"},"resource":{"op":"All"},"conditions":[{"kind":"when","body":` + b + `}]}`
	case 1: // an operator name
		doc = `{"effect":"permit","principal":{"op":"All"},"action":{"op":"All"},"resource":{"op":"All"},"conditions":[{"kind":"when","body":{"` + b + `":{"left":{"Value":1},"right":{"Value":2}}}}]}`
	case 2: // operands of an operator
		doc = `{"effect":"permit","principal":{"op":"All"},"action":{"op":"All"},"resource":{"op":"All"},"conditions":[{"kind":"when","body":{"==":{"left":` + b + `,"right":{"Var":"principal"}}}}]}`
	case 3: // a literal value
		doc = `{"effect":"permit","principal":{"op":"All"},"action":{"op":"All"},"resource":{"op":"All"},"conditions":[{"kind":"when","body":{"Value":` + b + `}}]}`
	case 4: // scope operator / entity
		doc = `{"effect":"forbid","principal":{"op":"` + b + `","entity":{"type":"T","id":"a"}},"action":{"op":"in","entities":[` + b + `]},"resource":{"op":"All"},"conditions":[]}`
	case 5: // effect and condition kind
		doc = `{"effect":"` + b + `","principal":{"op":"All"},"action":{"op":"All"},"resource":{"op":"All"},"conditions":[{"kind":"` + b + `","body":{"Value":true}}]}`
	case 6: // extension call argument list, record literal
		doc = `{"effect":"permit","principal":{"op":"All"},"action":{"op":"All"},"resource":{"op":"All"},"conditions":[{"kind":"when","body":{"decimal":` + b + `}},{"kind":"unless","body":{"Record":{"k":` + b + `}}}]}`
	case 7: // annotations, and trailing bytes
		doc = `{"annotations":{"a":` + b + `},"effect":"permit","principal":{"op":"All"},"action":{"op":"All"},"resource":{"op":"All"},"conditions":[]}` + b[:1]
	}
	var p Policy
	err := p.UnmarshalJSON([]byte(doc))
	if err != nil {
		vrt.Cover("C10.policyjson.rejected")
		return
	}
	vrt.Cover("C10.policyjson.accepted")
	c10UsePolicy(&p)
	_, _ = p.MarshalJSON()
	vrt.Assert("C10.policyjson.no-panic", true)
}

func VerifC10_PolicySetJSONWindow() {
	b := string(vrt.Bytes("w", 2))
	var doc string
	pol := `{"effect":"permit","principal":{"op":"All"},"action":{"op":"All"},"resource":{"op":"All"},"conditions":[]}`
	switch vrt.Choice("place", 4) {
	case 0:
		doc = `{"staticPolicies":{"p0":` + b + `}}`
	case 1:
		doc = `{"staticPolicies":` + b + `}`
	case 2:
		doc = `{"staticPolicies":{"` + b + `":` + pol + `,"p1":` + pol + `}}`
	case 3:
		doc = `{"` + b + `":{"p0":` + pol + `},"templates":{},"templateLinks":[]}`
	}
	var ps PolicySet
	err := ps.UnmarshalJSON([]byte(doc))
	if err != nil {
		vrt.Cover("C10.policysetjson.rejected")
		return
	}
	vrt.Cover("C10.policysetjson.accepted")
	for _, p := range ps.All() {
		if p != nil {
			c10UsePolicy(p)
		}
	}
	_ = ps.MarshalCedar()
	_, _ = ps.MarshalJSON()
	vrt.Assert("C10.policysetjson.no-panic", true)
}

// JSON token level: every pair of JSON values from a small alphabet (null, scalars,
// empty and null-holding containers, a valid expression) in the operand slots of
// every expression shape.
func VerifC10_PolicyJSONTokens() {
	toks := []string{`null`, `true`, `1`, `"s"`, `[]`, `{}`, `[null]`, `{"Value":1}`, `{"a":null}`, `[{"Value":1}]`, `{"Var":"principal"}`}
	s1 := toks[vrt.Choice("slot1", len(toks))]
	s2 := toks[vrt.Choice("slot2", len(toks))]
	var body string
	switch vrt.Choice("shape", 16) {
	case 0:
		body = `{"==":{"left":` + s1 + `,"right":` + s2 + `}}`
	case 1:
		body = `{"Record":{"k":` + s1 + `,"j":` + s2 + `}}`
	case 2:
		body = `{"Set":` + s1 + `}`
	case 3:
		body = `{"lessThan":` + s1 + `}`
	case 4:
		body = `{"decimal":` + s1 + `}`
	case 5:
		body = `{"if-then-else":{"if":` + s1 + `,"then":` + s2 + `,"else":{"Value":1}}}`
	case 6:
		body = `{".":{"left":` + s1 + `,"attr":` + s2 + `}}`
	case 7:
		body = `{"like":{"left":` + s1 + `,"pattern":` + s2 + `}}`
	case 8:
		body = `{"is":{"left":` + s1 + `,"entity_type":` + s2 + `,"in":` + s2 + `}}`
	case 9:
		body = `{"!":{"arg":` + s1 + `}}`
	case 10:
		body = `{"has":{"left":` + s1 + `,"attr":` + s2 + `}}`
	case 11:
		body = `{"Value":` + s1 + `}`
	case 12:
		body = `{"isInRange":[` + s1 + `,` + s2 + `]}`
	case 13:
		body = `{"&&":` + s1 + `}`
	case 14:
		body = `{"neg":{"arg":` + s1 + `},"!":{"arg":` + s2 + `}}`
	case 15:
		body = `{"getTag":{"left":` + s1 + `,"tag":` + s2 + `}}`
	}
	doc := `{"effect":"permit","principal":{"op":"All"},"action":{"op":"All"},"resource":{"op":"All"},"conditions":[{"kind":"when","body":` + body + `}]}`
	var p Policy
	err := p.UnmarshalJSON([]byte(doc))
	if err != nil {
		vrt.Cover("C10.policyjsontokens.rejected")
		return
	}
	vrt.Cover("C10.policyjsontokens.accepted")
	c10UsePolicy(&p)
	_, _ = p.MarshalJSON()
	vrt.Assert("C10.policyjsontokens.no-panic", true)
}
