//go:build verif

package cedar

import (
	"github.com/cedar-policy/cedar-go/internal/eval"
	"github.com/cedar-policy/cedar-go/internal/vrt"
	"github.com/cedar-policy/cedar-go/types"
)

// C10 (text): for every byte string in the window the decoder returns a policy
// or an error (no panic, bounded steps), and every accepted policy can be
// passed to every encoder and to the authorizer without a panic.

func c10UsePolicy(p *Policy) {
	_ = p.MarshalCedar()
	_ = p.Effect()
	_ = p.Annotations()
	_ = p.Position()
	ps := NewPolicySet()
	ps.Add("p", p)
	req := Request{Principal: types.NewEntityUID("T", "e"), Action: types.NewEntityUID("Action", "a"), Resource: types.NewEntityUID("T", "r"), Context: types.Record{}}
	_, _ = Authorize(ps, nil, req)
	_ = ps.MarshalCedar()
	env := eval.Env{Entities: types.EntityMap{}, Principal: eval.Variable("principal"), Action: req.Action, Resource: req.Resource, Context: req.Context}
	_, _ = eval.PartialPolicy(env, p.ast)
}

// W arbitrary bytes inside a condition.
func VerifC10_TextWindowCondition() {
	w := 2
	if vrt.Thorough() {
		w = 3
	}
	vrt.Bound("window-bytes", w)
	b := vrt.Bytes("w", w)
	text := "permit(principal,action,resource) when { " + string(b) + " };"
	var p Policy
	err := p.UnmarshalCedar([]byte(text))
	if err != nil {
		vrt.Cover("C10.text.condition.rejected")
		return
	}
	vrt.Cover("C10.text.condition.accepted")
	c10UsePolicy(&p)
	vrt.Assert("C10.text.condition.no-panic", true)
}

// W arbitrary bytes in the scope and in front of the policy.
func VerifC10_TextWindowScope() {
	b := vrt.Bytes("w", 2)
	var text string
	switch vrt.Choice("place", 4) {
	case 0:
		text = "permit(principal " + string(b) + " T::\"a\",action,resource);"
	case 1:
		text = string(b) + "permit(principal,action,resource);"
	case 2:
		text = "permit(principal,action in [" + string(b) + "],resource);"
	case 3:
		text = "@id(\"" + string(b) + "\")permit(principal,action,resource)" + string(b[:1]) + ";"
	}
	var p Policy
	err := p.UnmarshalCedar([]byte(text))
	if err != nil {
		vrt.Cover("C10.text.scope.rejected")
		return
	}
	vrt.Cover("C10.text.scope.accepted")
	c10UsePolicy(&p)
	vrt.Assert("C10.text.scope.no-panic", true)
}

var c10Tokens = []string{"principal", "action", "resource", "context", "true", "false", "if", "then", "else", "in", "like", "has", "is", "__cedar",
	"a", "T", "::", "\"s\"", "\"*\"", "1", "9223372036854775808", "-", "!", "+", "*", "<", "<=", "==", "!=", "&&", "||", "(", ")", "[", "]", "{", "}", ".", ",", ":",
	"decimal", "contains", "isEmpty", "lessThan", "ip"}

// Token-level windows: every sequence of k tokens from the alphabet.
func VerifC10_TokenWindow() {
	k := 2
	if vrt.Thorough() {
		k = 3
	}
	vrt.Bound("window-tokens", k)
	text := "permit(principal,action,resource) when { principal"
	for i := 0; i < k; i++ {
		text += " " + c10Tokens[vrt.Choice("token", len(c10Tokens))]
	}
	text += " };"
	var p Policy
	err := p.UnmarshalCedar([]byte(text))
	if err != nil {
		vrt.Cover("C10.tokens.rejected")
		return
	}
	vrt.Cover("C10.tokens.accepted")
	c10UsePolicy(&p)
	vrt.Assert("C10.tokens.no-panic", true)
}

// The list and streaming decoders on a short arbitrary document.
func VerifC10_DocumentBytes() {
	b := vrt.Bytes("doc", 2)
	pl, err := NewPolicyListFromBytes("f", append([]byte("permit(principal,action,resource);"), b...))
	if err == nil {
		vrt.Cover("C10.document.accepted")
		for _, p := range pl {
			c10UsePolicy(p)
		}
		_ = pl.MarshalCedar()
	} else {
		vrt.Cover("C10.document.rejected")
	}
	vrt.Assert("C10.document.no-panic", true)
}
