//go:build verif

package cedar

import (
	"iter"

	"github.com/cedar-policy/cedar-go/ast"
	"github.com/cedar-policy/cedar-go/internal/vrt"
	"github.com/cedar-policy/cedar-go/types"
	internalast "github.com/cedar-policy/cedar-go/x/exp/ast"
)

// C02: decision table of Authorize.  Each of N policies has an effect selector
// and a *symbolic* outcome: the scope matches iff the (symbolic) principal id
// equals "a"; the condition is (context.e_i && 1 < "x") || context.s_i, i.e.
// erroring when e_i, else satisfied iff s_i.  The oracle is the statement of
// the property written over those bits.

type c02Pol struct {
	extra   int  // extra constant clause, see c02Extra
	before  bool // the extra clause comes before the main condition
	id      types.PolicyID
	forbid  bool
	scoped  bool // policy has principal == User::"a"
	e, s    bool
	pos     Position
	pol     *Policy
}

func c02Key(i int, p string) types.String {
	return types.String(p + string(rune('0'+i)))
}

func c02Build(n int) ([]c02Pol, types.Record, types.EntityUID, bool) {
	pb := vrt.Byte("principal-id")
	principal := types.NewEntityUID("User", types.String(string([]byte{pb})))
	isA := pb == 'a'
	ctx := types.RecordMap{}
	pols := make([]c02Pol, n)
	for i := 0; i < n; i++ {
		p := &pols[i]
		p.id = types.PolicyID("p" + string(rune('0'+i)))
		p.forbid = vrt.Choice("effect", 2) == 1
		p.scoped = vrt.Choice("scoped", 2) == 1
		p.e, p.s = vrt.Bool("e"), vrt.Bool("s")
		ctx[c02Key(i, "e")] = types.Boolean(p.e)
		ctx[c02Key(i, "s")] = types.Boolean(p.s)
		var a *ast.Policy
		if p.forbid {
			a = ast.Forbid()
		} else {
			a = ast.Permit()
		}
		if p.scoped {
			a = a.PrincipalEq(types.NewEntityUID("User", "a"))
		}
		cond := ast.Context().Access(c02Key(i, "e")).And(ast.Long(1).LessThan(ast.String("x"))).Or(ast.Context().Access(c02Key(i, "s")))
		// an additional constant clause (foldable at compile time), before or after the main one
		if i == 0 {
			p.extra = vrt.Choice("extra-clause", len(c02Extra))
			p.before = p.extra != 0 && vrt.Choice("extra-first", 2) == 1
		}
		if p.before {
			a = c02Extra[p.extra].add(a)
		}
		a = a.When(cond)
		if !p.before {
			a = c02Extra[p.extra].add(a)
		}
		p.pos = Position{Filename: "f.cedar", Offset: 10 * (i + 1), Line: i + 1, Column: i + 2}
		(*internalast.Policy)(a).Position = internalast.Position(p.pos)
		p.pol = NewPolicyFromAST(a)
	}
	return pols, types.NewRecord(ctx), principal, isA
}

// c02Extra: constant clauses and whether they hold.
var c02Extra = []struct {
	add   func(*ast.Policy) *ast.Policy
	holds bool
	errs  bool // the clause is a type error on every request (constant non-Boolean body)
}{
	{func(p *ast.Policy) *ast.Policy { return p }, true, false},
	{func(p *ast.Policy) *ast.Policy { return p.Unless(ast.True()) }, false, false},
	{func(p *ast.Policy) *ast.Policy { return p.Unless(ast.False()) }, true, false},
	{func(p *ast.Policy) *ast.Policy { return p.When(ast.True()) }, true, false},
	{func(p *ast.Policy) *ast.Policy { return p.Unless(ast.Long(1).LessThan(ast.Long(2))) }, false, false},
	{func(p *ast.Policy) *ast.Policy { return p.When(ast.Long(2).LessThan(ast.Long(1))) }, false, false},
	{func(p *ast.Policy) *ast.Policy { return p.Unless(ast.Set(ast.String("a")).Contains(ast.String("b"))) }, true, false},
	{func(p *ast.Policy) *ast.Policy { return p.Unless(ast.Long(1)) }, false, true},
	{func(p *ast.Policy) *ast.Policy { return p.When(ast.String("yes")) }, false, true},
	{func(p *ast.Policy) *ast.Policy { return p.Unless(ast.Long(1).Add(ast.Long(2))) }, false, true},
}

// c02Outcome: conditions are evaluated in order and stop at the first one that is false or errors.
func c02Outcome(p *c02Pol, match bool) (sat, errs bool) {
	if !match {
		return false, false
	}
	extraHolds, extraErrs := c02Extra[p.extra].holds, c02Extra[p.extra].errs
	if p.before && extraErrs {
		return false, true
	}
	if p.before && !extraHolds {
		return false, false
	}
	if vrt.ConcretizeBool(p.e) {
		return false, true
	}
	if !vrt.ConcretizeBool(p.s) {
		return false, false
	}
	if extraErrs {
		return false, true
	}
	return extraHolds, false
}

func c02Check(pols []c02Pol, isA bool, dec Decision, diag Diagnostic) {
	// expected classification per policy
	anyForbid, anyPermit := false, false
	wantReason := map[types.PolicyID]bool{}
	wantError := map[types.PolicyID]bool{}
	for i := range pols {
		p := &pols[i]
		match := !p.scoped || vrt.ConcretizeBool(isA)
		sat, errs := c02Outcome(p, match)
		if errs {
			wantError[p.id] = true
		}
		if sat && p.forbid {
			anyForbid = true
		}
		if sat && !p.forbid {
			anyPermit = true
		}
	}
	for i := range pols {
		p := &pols[i]
		match := !p.scoped || vrt.ConcretizeBool(isA)
		sat, _ := c02Outcome(p, match)
		if sat && (p.forbid == anyForbid) {
			wantReason[p.id] = true
		}
	}
	wantAllow := anyPermit && !anyForbid
	if wantAllow {
		vrt.Cover("C02.allow")
	} else if anyForbid {
		vrt.Cover("C02.deny-by-forbid")
	} else {
		vrt.Cover("C02.deny-by-default")
	}
	if len(wantError) > 0 {
		vrt.Cover("C02.some-error")
	}
	vrt.Assert("C02.decision", (dec == Allow) == wantAllow)
	vrt.Assert("C02.reasons.count", len(diag.Reasons) == len(wantReason))
	seen := map[types.PolicyID]bool{}
	for _, r := range diag.Reasons {
		vrt.Assert("C02.reasons.member", wantReason[r.PolicyID] && !seen[r.PolicyID])
		seen[r.PolicyID] = true
		for i := range pols {
			if pols[i].id == r.PolicyID {
				vrt.Assert("C02.reasons.position", r.Position == pols[i].pos)
			}
		}
	}
	vrt.Assert("C02.errors.count", len(diag.Errors) == len(wantError))
	seenE := map[types.PolicyID]bool{}
	for _, e := range diag.Errors {
		vrt.Assert("C02.errors.member", wantError[e.PolicyID] && !seenE[e.PolicyID])
		seenE[e.PolicyID] = true
		vrt.Assert("C02.errors.message", e.Message != "")
		for i := range pols {
			if pols[i].id == e.PolicyID {
				vrt.Assert("C02.errors.position", e.Position == pols[i].pos)
			}
		}
	}
}

func c02N() int {
	max := 2
	if vrt.Thorough() {
		max = 3
	}
	vrt.Bound("policies", max)
	return 1 + vrt.Choice("n", max)
}

func VerifC02_DecisionPolicySet() {
	n := c02N()
	pols, ctx, principal, isA := c02Build(n)
	ps := NewPolicySet()
	for i := range pols {
		ps.Add(pols[i].id, pols[i].pol)
	}
	req := Request{Principal: principal, Action: types.NewEntityUID("Action", "x"), Resource: types.NewEntityUID("Res", "r"), Context: ctx}
	dec, diag := Authorize(ps, types.EntityMap{}, req)
	c02Check(pols, isA, dec, diag)
	// the deprecated method must agree
	dec2, diag2 := ps.IsAuthorized(nil, req)
	vrt.Assert("C02.isauthorized.same", dec2 == dec && len(diag2.Reasons) == len(diag.Reasons) && len(diag2.Errors) == len(diag.Errors))
}

type c02Iter struct{ pols []c02Pol }

func (it c02Iter) All() iter.Seq2[PolicyID, *Policy] {
	return func(yield func(PolicyID, *Policy) bool) {
		for i := range it.pols {
			if !yield(it.pols[i].id, it.pols[i].pol) {
				return
			}
		}
	}
}

func VerifC02_DecisionIterator() {
	n := c02N()
	pols, ctx, principal, isA := c02Build(n)
	req := Request{Principal: principal, Action: types.NewEntityUID("Action", "x"), Resource: types.NewEntityUID("Res", "r"), Context: ctx}
	dec, diag := Authorize(c02Iter{pols}, nil, req)
	c02Check(pols, isA, dec, diag)
}
