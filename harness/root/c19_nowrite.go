//go:build verif

package cedar

import (
	"bytes"

	"github.com/cedar-policy/cedar-go/ast"
	"github.com/cedar-policy/cedar-go/internal/vrt"
	"github.com/cedar-policy/cedar-go/types"
)

// C19 (non-interference reduction): read-only operations never write to memory
// reachable from their arguments or from package globals.  The executor's
// write monitor records every store / map update / append / copy that hits a
// cell frozen by vrt.Freeze; concurrent callers therefore share memory only by
// reading, which excludes data races and makes each call independent of the
// others.  Goroutine schedules themselves are not executed.

func c19World() (*PolicySet, types.EntityMap, Request) {
	e, p, x := types.NewEntityUID("T", "e"), types.NewEntityUID("T", "p"), types.NewEntityUID("U", "x")
	k := vrt.Int64("context.k")
	b := vrt.Bool("context.b")
	ps := NewPolicySet()
	ps.Add("scope", NewPolicyFromAST(ast.Permit().PrincipalIn(p).ActionInSet(types.NewEntityUID("Action", "a"), types.NewEntityUID("Action", "b")).When(ast.Context().Access("k").LessThan(ast.Long(10)))))
	ps.Add("attr", NewPolicyFromAST(ast.Forbid().When(ast.Principal().Has("n").And(ast.Principal().Access("n").Contains(ast.Context().Access("k"))))))
	ps.Add("rec", NewPolicyFromAST(ast.Permit().Annotate("id", "rec").When(ast.Record(ast.Pairs{{Key: "a", Value: ast.Context().Access("k")}, {Key: "b", Value: ast.Set(ast.Long(1), ast.Context().Access("k"))}}).Access("a").Equal(ast.Long(1)).Or(ast.Context().Access("b")))))
	ps.Add("err", NewPolicyFromAST(ast.Permit().When(ast.Context().Access("missing").Equal(ast.Long(1)))))
	var doc bytes.Buffer
	doc.WriteString("permit(principal, action, resource) when { principal.tagged.hasTag(\"t\") && context.k + 1 > 0 };")
	if parsed, err := NewPolicyListFromBytes("f.cedar", doc.Bytes()); err == nil && len(parsed) == 1 {
		ps.Add("parsed", parsed[0])
	}
	ents := types.EntityMap{
		e: types.Entity{UID: e, Parents: types.NewEntityUIDSet(p), Attributes: types.NewRecord(types.RecordMap{"n": types.NewSet(types.Long(1), types.Long(2)), "tagged": x}), Tags: types.NewRecord(types.RecordMap{"t": types.String("v")})},
		p: types.Entity{UID: p},
	}
	req := Request{Principal: e, Action: types.NewEntityUID("Action", "a"), Resource: p, Context: types.NewRecord(types.RecordMap{"k": types.Long(k), "b": types.Boolean(b)})}
	return ps, ents, req
}

func VerifC19_AuthorizeNoWrite() {
	ps, ents, req := c19World()
	before := ps.MarshalCedar()
	vrt.Freeze(ps, ents, req)
	vrt.Concurrently(2, func() {
		_, _ = Authorize(ps, ents, req)
		_, _ = ps.IsAuthorized(ents, req)
	})
	w := vrt.Writes()
	vrt.Unfreeze()
	dec1, diag1 := Authorize(ps, ents, req)
	dec2, diag2 := ps.IsAuthorized(ents, req)
	vrt.Cover("C19.authorize.checked")
	if w != 0 {
		vrt.Tag("native-replay:race")
	}
	vrt.Assert("C19.authorize.no-write-to-shared-state", w == 0)
	// a second call returns what the first returned (nothing was cached or consumed)
	vrt.Assert("C19.authorize.repeatable", dec1 == dec2 && len(diag1.Reasons) == len(diag2.Reasons) && len(diag1.Errors) == len(diag2.Errors))
	vrt.Assert("C19.authorize.inputs-unchanged", bytes.Equal(before, ps.MarshalCedar()) && len(ents) == 2 && req.Context.Len() == 2)
}

func VerifC19_MarshalInspectNoWrite() {
	ps, ents, req := c19World()
	t1 := ps.MarshalCedar()
	vrt.Freeze(ps, ents, req)
	vrt.Concurrently(2, func() {
		_ = ps.MarshalCedar()
		for _, p := range ps.All() {
			_ = p.MarshalCedar()
			_ = p.Effect()
			_ = p.Annotations()
			_ = p.Position()
			_ = p.AST()
		}
		_ = ps.Map()
		_ = ps.Get("rec")
		for _, ent := range ents {
			_ = ent.Attributes.MarshalCedar()
			_ = ent.Parents.Len()
			for range ent.Attributes.All() {
			}
		}
		_ = req.Context.MarshalCedar()
		_ = req.Context.Map()
	})
	w := vrt.Writes()
	vrt.Unfreeze()
	t2 := ps.MarshalCedar()
	vrt.Cover("C19.marshal.checked")
	if w != 0 {
		vrt.Tag("native-replay:race")
	}
	vrt.Assert("C19.marshal.no-write-to-shared-state", w == 0)
	vrt.Assert("C19.marshal.stable", bytes.Equal(t1, t2))
}
