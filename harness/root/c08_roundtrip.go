//go:build verif

package cedar

import (
	"bytes"

	"github.com/cedar-policy/cedar-go/ast"
	"github.com/cedar-policy/cedar-go/internal/eval"
	"github.com/cedar-policy/cedar-go/internal/parser"
	"github.com/cedar-policy/cedar-go/internal/vrt"
	"github.com/cedar-policy/cedar-go/types"
	internalast "github.com/cedar-policy/cedar-go/x/exp/ast"
)

// C08: the Cedar text rendering of every policy parses back to a policy with
// the same effect/annotations/scope that evaluates identically on every
// (symbolic) request, and re-rendering reproduces the same bytes.

func c08Eval(p *Policy, env eval.Env) (types.Boolean, error) {
	be := eval.Compile(p.ast)
	return be.Eval(env)
}

// c08Strict: the generated tree contains no value that legitimately changes shape in text
// (set/record/extension *values*), so the reparsed condition must be the identical tree.
var c08Strict bool

func c08Check(a *internalast.Policy, g eval.VGenEnv) {
	p := newPolicy(a)
	text := p.MarshalCedar()
	var p2 Policy
	err := p2.UnmarshalCedar(text)
	if err != nil {
		vrt.Tag("reparse-failed")
	}
	vrt.Assert("C08.reparses", err == nil)
	vrt.Cover("C08.reparsed")
	vrt.Assert("C08.effect", p2.Effect() == p.Effect())
	vrt.Assert("C08.annotations.count", len(p2.ast.Annotations) == len(a.Annotations))
	for i := range a.Annotations {
		vrt.Assert("C08.annotations.same", p2.ast.Annotations[i].Key == a.Annotations[i].Key && p2.ast.Annotations[i].Value == a.Annotations[i].Value)
	}
	if c08Strict && err == nil && len(a.Conditions) == 1 && len(p2.ast.Conditions) == 1 {
		vrt.Assert("C08.same-tree", parser.VEqNode(a.Conditions[0].Body, p2.ast.Conditions[0].Body))
	}
	b1, e1 := c08Eval(p, g.Env())
	b2, e2 := c08Eval(&p2, g.Env())
	vrt.Assert("C08.same-error", (e1 != nil) == (e2 != nil))
	vrt.Assert("C08.same-satisfied", b1 == b2)
	text2 := p2.MarshalCedar()
	vrt.Assert("C08.rerender-identical", bytes.Equal(text, text2))
}

var c08Leaves = []int{eval.VLeafSmallLong, eval.VLeafNegLong, eval.VLeafMinLong, eval.VLeafBool, eval.VLeafString, eval.VLeafCtxK, eval.VLeafEntity, eval.VLeafSet, eval.VLeafRecord, eval.VLeafPrincipal, eval.VLeafDecimal}
var c08LeavesQuick = []int{eval.VLeafSmallLong, eval.VLeafNegLong, eval.VLeafBool, eval.VLeafCtxK, eval.VLeafEntity, eval.VLeafSet}

func c08LeafSet() []int {
	if vrt.Thorough() {
		return c08Leaves
	}
	return c08LeavesQuick
}

func c08Policy(cond internalast.Node) *internalast.Policy {
	return &internalast.Policy{Effect: internalast.EffectPermit, Principal: internalast.ScopeTypeAll{}, Action: internalast.ScopeTypeAll{}, Resource: internalast.ScopeTypeAll{},
		Conditions: []internalast.ConditionType{{Condition: internalast.ConditionWhen, Body: cond.AsIsNode()}}}
}

func VerifC08_UnaryRoundTrip() {
	vrt.Theory("int")
	eval.VGenDigitPayloads(true)
	g := eval.VGenMkEnv()
	op := vrt.Choice("op", eval.VUnaryCount)
	x, _ := eval.VGenLeaf("x", c08LeafSet())
	c08Check(c08Policy(eval.VGenUnary(op, x)), g)
}

func VerifC08_BinaryRoundTrip() {
	vrt.Theory("int")
	eval.VGenDigitPayloads(true)
	g := eval.VGenMkEnv()
	op := vrt.Choice("op", eval.VOpBinaryCount)
	l, _ := eval.VGenLeaf("l", c08LeafSet())
	r, _ := eval.VGenLeaf("r", c08LeafSet())
	c08Check(c08Policy(eval.VGenBinary(op, l, r)), g)
}

// Every (parent, child, side) pairing of operators (quick: one representative
// per precedence level; thorough: all): this is where a missing or superfluous
// parenthesis shows.
func c08Ops() (bin []int, un []int) {
	if vrt.Thorough() {
		for i := 0; i < eval.VOpBinaryCount; i++ {
			bin = append(bin, i)
		}
		for i := 0; i < eval.VUnaryCount; i++ {
			un = append(un, i)
		}
		return
	}
	// || && == < in + - * contains ; ! neg has .a is-in if
	return []int{1, 0, 2, 4, 11, 8, 9, 10, 12}, []int{0, 1, 3, 4, 7, 8}
}

func VerifC08_PairsRoundTrip() {
	c08Strict = true
	vrt.Theory("int")
	eval.VGenDigitPayloads(true)
	g := eval.VGenMkEnv()
	bin, un := c08Ops()
	leaves := []int{eval.VLeafSmallLong, eval.VLeafCtxB}
	pickB := func(l string) int { return bin[vrt.Choice(l, len(bin))] }
	pickU := func(l string) int { return un[vrt.Choice(l, len(un))] }
	a, _ := eval.VGenLeaf("a", leaves)
	b, _ := eval.VGenLeaf("b", leaves)
	c := internalast.Long(3)
	var n internalast.Node
	switch vrt.Choice("shape", 5) {
	case 0: // (a op1 b) op2 c
		n = eval.VGenBinary(pickB("parent"), eval.VGenBinary(pickB("child"), a, b), c)
	case 1: // a op2 (b op1 c)
		n = eval.VGenBinary(pickB("parent"), a, eval.VGenBinary(pickB("child"), b, c))
	case 2: // unary(a op b)
		n = eval.VGenUnary(pickU("parent"), eval.VGenBinary(pickB("child"), a, b))
	case 3: // unary(a) op b , a op unary(b)
		u := eval.VGenUnary(pickU("child"), a)
		if vrt.Choice("side", 2) == 0 {
			n = eval.VGenBinary(pickB("parent"), u, b)
		} else {
			n = eval.VGenBinary(pickB("parent"), b, u)
		}
	case 4: // unary(unary(a))
		n = eval.VGenUnary(pickU("parent"), eval.VGenUnary(pickU("child"), a))
	}
	c08Check(c08Policy(n), g)
}

// Effects, annotations, every scope form, when/unless order.
func VerifC08_ScopeAnnotations() {
	g := eval.VGenMkEnv()
	e := types.NewEntityUID("T", "e")
	e2 := types.NewEntityUID("NS::T", "p")
	a := ast.Permit()
	if vrt.Choice("effect", 2) == 1 {
		a = ast.Forbid()
	}
	switch vrt.Choice("annotations", 3) {
	case 1:
		a = a.Annotate("id", "x")
	case 2:
		a = a.Annotate("id", "").Annotate("other", "a\"b")
	}
	full := vrt.Thorough()
	pick := func(label string, n int, quickFixed int) int {
		if full {
			return vrt.Choice(label, n)
		}
		return quickFixed
	}
	combo := 0
	if !full {
		combo = vrt.Choice("scope-combo", 5)
	}
	switch pick("principal", 5, combo) {
	case 1:
		a = a.PrincipalEq(e)
	case 2:
		a = a.PrincipalIn(e2)
	case 3:
		a = a.PrincipalIs("NS::T")
	case 4:
		a = a.PrincipalIsIn("T", e)
	}
	switch pick("action", 4, combo%4) {
	case 1:
		a = a.ActionEq(types.NewEntityUID("Action", "act"))
	case 2:
		a = a.ActionIn(types.NewEntityUID("Action", "group"))
	case 3:
		a = a.ActionInSet(types.NewEntityUID("Action", "act"), types.NewEntityUID("Action", "b"))
	}
	switch pick("resource", 5, (combo+2)%5) {
	case 1:
		a = a.ResourceEq(e)
	case 2:
		a = a.ResourceIn(e2)
	case 3:
		a = a.ResourceIs("T")
	case 4:
		a = a.ResourceIsIn("NS::T", e2)
	}
	switch vrt.Choice("conditions", 4) {
	case 1:
		a = a.When(ast.Context().Access("b"))
	case 2:
		a = a.Unless(ast.Context().Access("b")).When(ast.True())
	case 3:
		a = a.When(ast.True()).Unless(ast.Context().Access("b"))
	}
	ia := (*internalast.Policy)(a)
	c08Check(ia, g)
	// scope survives structurally
	var p2 Policy
	if p2.UnmarshalCedar(newPolicy(ia).MarshalCedar()) == nil {
		vrt.Assert("C08.scope.principal", p2.ast.Principal == ia.Principal)
		vrt.Assert("C08.scope.resource", p2.ast.Resource == ia.Resource)
		vrt.Assert("C08.conditions.count", len(p2.ast.Conditions) == len(ia.Conditions))
		for i := range ia.Conditions {
			vrt.Assert("C08.conditions.kind-order", p2.ast.Conditions[i].Condition == ia.Conditions[i].Condition)
		}
	}
}

// Strings, attribute names, record keys and entity ids with a symbolic rune.
func VerifC08_Strings() {
	g := eval.VGenMkEnv()
	r := vrt.Rune("rune")
	// the symbolic part of the rune is bounded (the printable/escape classification walks
	// the Unicode range tables: one path per table range; an unconstrained rune did not
	// finish in 45 minutes); larger code points are sampled at the interesting boundaries
	limit := rune(0x80)
	if vrt.Thorough() {
		limit = 0x250
	}
	vrt.Bound("symbolic-rune-below-limit-plus-11-sampled-code-points", int(limit))
	if k := vrt.Choice("rune-class", 12); k == 0 {
		vrt.Assume(vrt.And(r >= 0, r < limit))
	} else {
		// separators, BOM, replacement character, plane boundaries, surrogate neighbours, an
		// emoji, and a non-ASCII letter, digit and space (identifier / whitespace look-alikes)
		r = []rune{0x2028, 0xFEFF, 0xFFFD, 0x10000, 0x10FFFF, 0xD7FF, 0xE000, 0x1F600, 0xE9, 0x663, 0xA0}[k-1]
	}
	s := types.String("a" + string(r))
	var n internalast.Node
	switch vrt.Choice("position", 6) {
	case 0: // string literal
		n = internalast.String(s).Equal(internalast.String("a"))
		vrt.Cover("C08.strings.literal")
	case 1: // attribute access
		n = internalast.Context().Access(s).Equal(internalast.Long(1))
		vrt.Cover("C08.strings.attribute")
	case 2: // has
		n = internalast.Context().Has(s)
		vrt.Cover("C08.strings.has")
	case 3: // record literal key
		n = internalast.Record(internalast.Pairs{{Key: s, Value: internalast.Long(1)}}).Has(s)
		vrt.Cover("C08.strings.record-key")
	case 4: // entity id
		n = internalast.Principal().Equal(internalast.Value(types.NewEntityUID("T", s)))
		vrt.Cover("C08.strings.entity-id")
	case 5: // record value (types.Record.MarshalCedar quotes the key)
		n = internalast.Value(types.NewRecord(types.RecordMap{s: types.Long(1)})).Has(s)
		vrt.Cover("C08.strings.record-value-key")
	}
	c08Check(c08Policy(n), g)
}
