//go:build verif

package cedar

import (
	"bytes"
	"sort"

	"github.com/cedar-policy/cedar-go/ast"
	"github.com/cedar-policy/cedar-go/internal/vrt"
	"github.com/cedar-policy/cedar-go/types"
)

// C14: results are deterministic functions of their inputs.  Inside the
// executor every `range` over a Go map takes a forked permutation of its
// entries in the second run (the iteration order is a symbolic variable);
// natively the operation is repeated because Go randomises the order.

type c14Obs struct {
	dec     Decision
	reasons string
	errors  string
}

func c14Observe(dec Decision, diag Diagnostic) c14Obs {
	var rs, es []string
	for _, r := range diag.Reasons {
		rs = append(rs, string(r.PolicyID))
	}
	for _, e := range diag.Errors {
		es = append(es, string(e.PolicyID)+": "+e.Message)
	}
	sort.Strings(rs)
	sort.Strings(es)
	o := c14Obs{dec: dec}
	for _, r := range rs {
		o.reasons += r + ";"
	}
	for _, e := range es {
		o.errors += e + ";"
	}
	return o
}

func c14Policies() map[PolicyID]*Policy {
	return map[PolicyID]*Policy{
		"permit-b": NewPolicyFromAST(ast.Permit().When(ast.Context().Access("b"))),
		"forbid-c": NewPolicyFromAST(ast.Forbid().When(ast.Context().Access("c"))),
		// two record fields that fail with *different* messages
		"rec-err": NewPolicyFromAST(ast.Permit().When(ast.Record(ast.Pairs{
			{Key: "x", Value: ast.Long(1).Add(ast.String("s"))},
			{Key: "y", Value: ast.Not(ast.Long(1))},
		}).Has("x"))),
		"set-err": NewPolicyFromAST(ast.Permit().When(ast.Set(ast.Long(1).LessThan(ast.String("s")), ast.Not(ast.Long(1))).IsEmpty())),
	}
}

func VerifC14_AuthorizeOrder() {
	pols := c14Policies()
	ids := []PolicyID{"permit-b", "forbid-c", "rec-err", "set-err"}
	b, c := vrt.Bool("context.b"), vrt.Bool("context.c")
	req := Request{Principal: types.NewEntityUID("U", "u"), Action: types.NewEntityUID("Action", "a"), Resource: types.NewEntityUID("R", "r"),
		Context: types.NewRecord(types.RecordMap{"b": types.Boolean(b), "c": types.Boolean(c)})}
	// reference: canonical insertion order, canonical iteration order
	ps := NewPolicySet()
	for _, id := range ids {
		ps.Add(id, pols[id])
	}
	want := c14Observe(Authorize(ps, types.EntityMap{}, req))
	// policies added in a different order (selector), iteration order nondeterministic
	perm := [][]int{{3, 2, 1, 0}, {1, 3, 0, 2}, {2, 0, 3, 1}}[vrt.Choice("insertion-order", 3)]
	ps2 := NewPolicySet()
	for _, k := range perm {
		ps2.Add(ids[k], pols[ids[k]])
	}
	vrt.Cover("C14.authorize.checked")
	for i := 0; i < vrt.Repeat(300); i++ {
		vrt.NondetMapOrder(true)
		got := c14Observe(Authorize(ps2, types.EntityMap{}, req))
		again := got
		if vrt.Thorough() || !vrt.Symbolic() {
			again = c14Observe(ps2.IsAuthorized(nil, req))
		}
		vrt.NondetMapOrder(false)
		vrt.Assert("C14.authorize.same-decision", got.dec == want.dec && again.dec == want.dec)
		vrt.Assert("C14.authorize.same-reasons", got.reasons == want.reasons && again.reasons == want.reasons)
		if got.errors != want.errors {
			vrt.Tag("error-message-depends-on-map-order")
		}
		vrt.Assert("C14.authorize.same-errors-and-messages", got.errors == want.errors && again.errors == want.errors)
	}
}

func VerifC14_MarshalOrder() {
	pols := c14Policies()
	ps := NewPolicySet()
	for id, p := range pols {
		ps.Add(id, p)
	}
	want := ps.MarshalCedar()
	rec := types.NewRecord(types.RecordMap{"b": types.Long(1), "a": types.NewSet(types.Long(3), types.Long(1), types.String("z")), "c": types.NewRecord(types.RecordMap{"y": types.True, "x": types.False})})
	wantRec := rec.MarshalCedar()
	em := types.EntityMap{}
	for _, id := range []string{"c", "a", "b"} {
		uid := types.NewEntityUID("T", types.String(id))
		em[uid] = types.Entity{UID: uid, Parents: types.NewEntityUIDSet(types.NewEntityUID("T", "p"), types.NewEntityUID("T", "q"))}
	}
	vrt.Cover("C14.marshal.checked")
	which := vrt.Choice("permuted-map-iteration", 24)
	vrt.Bound("one-permuted-map-iteration-per-path-among-first", 24)
	for i := 0; i < vrt.Repeat(200); i++ {
		vrt.NondetMapOrderAt(which)
		got := ps.MarshalCedar()
		gotRec := rec.MarshalCedar()
		// a set built again from the same members in another order renders identically
		rec2 := types.NewRecord(types.RecordMap{"c": types.NewRecord(types.RecordMap{"x": types.False, "y": types.True}), "a": types.NewSet(types.String("z"), types.Long(1), types.Long(3)), "b": types.Long(1)})
		gotRec2 := rec2.MarshalCedar()
		vrt.NondetMapOrder(false)
		vrt.Assert("C14.marshal.policyset-bytes", bytes.Equal(got, want))
		vrt.Assert("C14.marshal.record-bytes", bytes.Equal(gotRec, wantRec))
		vrt.Assert("C14.marshal.rebuilt-value-bytes", bytes.Equal(gotRec2, wantRec))
	}
	_ = em
}
