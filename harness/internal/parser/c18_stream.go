//go:build verif

package parser

import (
	"errors"
	"io"
	"strings"
	"unicode/utf8"

	"github.com/cedar-policy/cedar-go/internal/vrt"
)

// C18: streaming decode is chunking-invariant and positions are exact.
// The reader delivers the document in pieces whose sizes are symbolic/selected;
// tokens, policies and errors must equal those of the whole-slice parse.

var errC18Read = errors.New("c18: reader failed")

type c18Reader struct {
	data    []byte
	pos     int
	splits  map[int]bool // a read never crosses a split position
	one     bool         // one byte at a time
	eofWith bool         // deliver io.EOF together with the last data
	failAt  int          // fail (instead of delivering) once pos >= failAt; -1 = never
	reads   int
}

func (r *c18Reader) Read(p []byte) (int, error) {
	r.reads++
	if r.failAt >= 0 && r.pos >= r.failAt {
		return 0, errC18Read
	}
	if r.pos >= len(r.data) {
		return 0, io.EOF
	}
	n := len(r.data) - r.pos
	if n > len(p) {
		n = len(p)
	}
	if r.one {
		n = 1
	}
	for k := 1; k < n; k++ {
		if r.splits[r.pos+k] {
			n = k
			break
		}
	}
	if r.failAt >= 0 && r.pos+n > r.failAt {
		n = r.failAt - r.pos
		if n == 0 {
			return 0, errC18Read
		}
	}
	copy(p, r.data[r.pos:r.pos+n])
	r.pos += n
	if r.eofWith && r.pos == len(r.data) {
		return n, io.EOF
	}
	return n, nil
}

func c18SameTokens(a, b []Token) bool {
	if len(a) != len(b) {
		return false
	}
	for i := range a {
		if a[i].Type != b[i].Type || a[i].Text != b[i].Text || a[i].Pos != b[i].Pos {
			return false
		}
	}
	return true
}

var c18Docs = []string{
	"permit(principal,action,resource)when{\"é😀\"==\"\\u{1F600}\"};//ü\n",
	"@id(\"p\")\r\nforbid ( principal , action , resource )\n unless { context.a like \"x*\\*\" } ; // c",
	"permit(principal,action,resource) when { 9223372036854775807 > -1 };\n\n/* é */ permit(principal,action,resource);",
	"permit(principal,action,resource) when { \"unterminated };",
	"permit(principal,action,resource) when { a \xff b };",
}

// All chunkings of short documents: a symbolic subset of split positions.
func VerifC18_ChunkingShort() {
	docs := []string{"a\"é\"//ü\nb", "\"😀\"==x1", "/*é*/ a.b", "\"a\\\"b\" 12", "é", "\"\xff\"a"}
	doc := docs[vrt.Choice("doc", len(docs))]
	data := []byte(doc)
	vrt.Bound("short-document-bytes", 12)
	r := &c18Reader{data: data, splits: map[int]bool{}, failAt: -1, eofWith: vrt.Choice("eof-with-data", 2) == 1}
	for i := 1; i < len(data); i++ {
		if vrt.Choice("split", 2) == 1 {
			r.splits[i] = true
		}
	}
	want, wantErr := Tokenize(data)
	got, gotErr := TokenizeReader(r)
	vrt.Cover("C18.short.checked")
	vrt.Assert("C18.short.same-error", (wantErr != nil) == (gotErr != nil))
	if wantErr == nil && gotErr == nil {
		vrt.Assert("C18.short.same-tokens", c18SameTokens(want, got))
	} else if wantErr != nil && gotErr != nil {
		vrt.Assert("C18.short.same-error-text", wantErr.Error() == gotErr.Error())
	}
}

// Longer documents: up to two split points at any position, or one byte at a time.
func VerifC18_ChunkingDocs() {
	doc := c18Docs[vrt.Choice("doc", len(c18Docs))]
	data := []byte(doc)
	r := &c18Reader{data: data, splits: map[int]bool{}, failAt: -1, eofWith: vrt.Choice("eof-with-data", 2) == 1}
	switch vrt.Choice("mode", 3) {
	case 0:
		r.one = true
		vrt.Cover("C18.docs.one-byte-at-a-time")
	case 1:
		r.splits[1+vrt.Choice("split1", len(data)-1)] = true
		vrt.Cover("C18.docs.one-split")
	case 2:
		s1 := 1 + vrt.Choice("split1", len(data)-1)
		r.splits[s1] = true
		if vrt.Thorough() {
			r.splits[1+vrt.Choice("split2", len(data)-1)] = true
		} else {
			// quick: the second split follows closely (a short chunk in the middle)
			s2 := s1 + 1 + vrt.Choice("split2-distance", 4)
			if s2 < len(data) {
				r.splits[s2] = true
			}
		}
		vrt.Cover("C18.docs.two-splits")
	}
	want, wantErr := Tokenize(data)
	got, gotErr := TokenizeReader(r)
	vrt.Assert("C18.docs.same-error", (wantErr != nil) == (gotErr != nil))
	if wantErr == nil && gotErr == nil {
		vrt.Assert("C18.docs.same-tokens", c18SameTokens(want, got))
	} else if wantErr != nil && gotErr != nil {
		vrt.Assert("C18.docs.same-error-text", wantErr.Error() == gotErr.Error())
	}
	// and through the streaming decoder: same policies or same failure
	var whole PolicySlice
	wholeErr := whole.UnmarshalCedar(data)
	r2 := &c18Reader{data: data, splits: r.splits, one: r.one, failAt: -1, eofWith: r.eofWith}
	dec := NewDecoder(r2)
	var streamed []*Policy
	var streamErr error
	for {
		var p Policy
		err := dec.Decode(&p)
		if err == io.EOF {
			break
		}
		if err != nil {
			streamErr = err
			break
		}
		streamed = append(streamed, &p)
	}
	vrt.Assert("C18.decoder.same-failure", (wholeErr != nil) == (streamErr != nil))
	if wholeErr == nil && streamErr == nil {
		vrt.Assert("C18.decoder.same-count", len(whole) == len(streamed))
		for i := range whole {
			if i < len(streamed) {
				vrt.Assert("C18.decoder.same-position", whole[i].Position == streamed[i].Position)
				vrt.Assert("C18.decoder.same-effect", whole[i].Effect == streamed[i].Effect)
			}
		}
	}
}

// A reader failure in mid-document is an error, never a truncated result.
func VerifC18_ReaderFailure() {
	doc := c18Docs[vrt.Choice("doc", 3)]
	data := []byte(doc)
	k := vrt.Choice("fail-at", len(data))
	r := &c18Reader{data: data, splits: map[int]bool{}, failAt: k, one: vrt.Choice("one", 2) == 1}
	toks, err := TokenizeReader(r)
	vrt.Cover("C18.failure.checked")
	vrt.Assert("C18.failure.reported", err != nil && toks == nil)
	dec := NewDecoder(&c18Reader{data: data, splits: map[int]bool{}, failAt: k})
	var p Policy
	derr := dec.Decode(&p)
	vrt.Assert("C18.failure.decoder-reports", derr != nil && derr != io.EOF)
}

// c18Pos computes offset/line/column of byte offset off independently.
func c18Pos(doc string, off int) Position {
	line, col := 1, 1
	for i := 0; i < off; {
		r, n := utf8.DecodeRuneInString(doc[i:])
		if r == '\n' {
			line++
			col = 1
		} else {
			col++
		}
		i += n
	}
	return Position{Offset: off, Line: line, Column: col}
}

// Each policy's position is the offset, line and column of its first token.
func VerifC18_Positions() {
	pre := []string{"", " ", "\n", "// é\n", "/* é\n😀 */ ", "\r\n\t", "é"[:0] + "\n\n   "}
	a := pre[vrt.Choice("before-first", len(pre))]
	b := pre[1+vrt.Choice("before-second", len(pre)-1)]
	p1 := "@id(\"é\") permit(principal,action,resource);"
	p2 := "forbid(principal,action,resource) when { \"😀\" == \"\" };"
	doc := a + p1 + b + p2
	off1 := len(a)
	off2 := len(a) + len(p1) + len(b)
	var ps PolicySlice
	err := ps.UnmarshalCedar([]byte(doc))
	vrt.Cover("C18.positions.checked")
	vrt.Assert("C18.positions.parses", err == nil && len(ps) == 2)
	if err == nil && len(ps) == 2 {
		vrt.Assert("C18.positions.first", Position(ps[0].Position) == c18Pos(doc, off1))
		vrt.Assert("C18.positions.second", Position(ps[1].Position) == c18Pos(doc, off2))
	}
	// one byte at a time gives the same positions
	dec := NewDecoder(&c18Reader{data: []byte(doc), splits: map[int]bool{}, failAt: -1, one: true})
	var q1, q2 Policy
	e1, e2 := dec.Decode(&q1), dec.Decode(&q2)
	vrt.Assert("C18.positions.streamed", e1 == nil && e2 == nil && Position(q1.Position) == c18Pos(doc, off1) && Position(q2.Position) == c18Pos(doc, off2))
}

// Documents larger than the internal buffer: tokens, strings and comments that
// straddle the 1024-byte refill boundary.
func VerifC18_BufferBoundary() {
	fill := []string{
		"permit(principal,action,resource) when { \"" + strings.Repeat("a", 1100) + "é\" == \"\" };",
		"// " + strings.Repeat("c", 1015) + "é😀\npermit(principal,action,resource);",
		strings.Repeat(" ", 1018) + "permit(principal,action,resource) when { context.abcdefghij == 12345678901 };",
		"permit(principal,action,resource) when { " + strings.Repeat("1+", 505) + "1 > 0 };",
	}
	doc := fill[vrt.Choice("doc", len(fill))]
	data := []byte(doc)
	r := &c18Reader{data: data, splits: map[int]bool{}, failAt: -1}
	switch vrt.Choice("mode", 4) {
	case 0: // whole buffer reads
	case 1:
		r.splits[1023] = true
	case 2:
		r.splits[1024] = true
		r.splits[1025] = true
	case 3:
		r.splits[1020+vrt.Choice("split", 10)] = true
	}
	want, wantErr := Tokenize(data)
	got, gotErr := TokenizeReader(r)
	vrt.Cover("C18.boundary.checked")
	vrt.Assert("C18.boundary.no-error", wantErr == nil && gotErr == nil)
	vrt.Assert("C18.boundary.same-tokens", c18SameTokens(want, got))
}

// Two arbitrary bytes inside a string literal (any values: quotes, escapes,
// UTF-8 lead and continuation bytes, invalid bytes) under every chunking of the
// literal: tokens or error must equal the whole-slice result.
func VerifC18_SymbolicBytes() {
	b := vrt.Bytes("b", 2)
	data := []byte{'"', b[0], b[1], '"', ' ', 'x'}
	r := &c18Reader{data: data, splits: map[int]bool{}, failAt: -1}
	for i := 1; i <= 3; i++ {
		if vrt.Choice("split", 2) == 1 {
			r.splits[i] = true
		}
	}
	want, wantErr := Tokenize(data)
	got, gotErr := TokenizeReader(r)
	if wantErr != nil {
		vrt.Cover("C18.symbolic.error")
	} else {
		vrt.Cover("C18.symbolic.tokens")
	}
	vrt.Assert("C18.symbolic.same-error", (wantErr != nil) == (gotErr != nil))
	if wantErr == nil && gotErr == nil {
		vrt.Assert("C18.symbolic.same-count", len(want) == len(got))
		for i := range want {
			if i < len(got) {
				vrt.Assert("C18.symbolic.same-token", want[i].Type == got[i].Type && want[i].Pos == got[i].Pos && vrt.EqString(want[i].Text, got[i].Text))
			}
		}
	} else if wantErr != nil && gotErr != nil {
		vrt.Assert("C18.symbolic.same-error-text", wantErr.Error() == gotErr.Error())
	}
}
