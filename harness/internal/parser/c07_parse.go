//go:build verif

package parser

import (
	"strings"

	"github.com/cedar-policy/cedar-go/internal/vrt"
	"github.com/cedar-policy/cedar-go/types"
	"github.com/cedar-policy/cedar-go/x/exp/ast"
)

// C07: the text parser builds exactly the tree the grammar prescribes.
// Policy text is produced by an *independent* printer written from the grammar's
// precedence table (not from cedar_marshal.go), in a fully parenthesised and a
// minimal-parenthesis mode, with one symbolic layout gap; the parsed tree must
// be structurally equal to the generating tree.

// grammar levels
const (
	lvIf = iota
	lvOr
	lvAnd
	lvRel
	lvAdd
	lvMul
	lvUnary
	lvMember
	lvPrimary
)

type c07Printer struct {
	toks []string
	full bool // fully parenthesised
}

func (p *c07Printer) emit(s ...string) { p.toks = append(p.toks, s...) }

func c07Level(n ast.IsNode) int {
	switch v := n.(type) {
	case ast.NodeTypeIfThenElse:
		return lvIf
	case ast.NodeTypeOr:
		return lvOr
	case ast.NodeTypeAnd:
		return lvAnd
	case ast.NodeTypeEquals, ast.NodeTypeNotEquals, ast.NodeTypeLessThan, ast.NodeTypeLessThanOrEqual, ast.NodeTypeGreaterThan, ast.NodeTypeGreaterThanOrEqual,
		ast.NodeTypeIn, ast.NodeTypeHas, ast.NodeTypeLike, ast.NodeTypeIs, ast.NodeTypeIsIn:
		return lvRel
	case ast.NodeTypeAdd, ast.NodeTypeSub:
		return lvAdd
	case ast.NodeTypeMult:
		return lvMul
	case ast.NodeTypeNot, ast.NodeTypeNegate:
		return lvUnary
	case ast.NodeTypeAccess, ast.NodeTypeContains, ast.NodeTypeContainsAll, ast.NodeTypeContainsAny, ast.NodeTypeIsEmpty, ast.NodeTypeGetTag, ast.NodeTypeHasTag:
		return lvMember
	case ast.NodeTypeExtensionCall:
		if c07IsMethod(v.Name) {
			return lvMember
		}
		return lvPrimary
	case ast.NodeValue:
		if l, ok := v.Value.(types.Long); ok && l < 0 {
			return lvUnary // "-5" starts with a minus sign
		}
		return lvPrimary
	}
	return lvPrimary
}

func c07IsMethod(name types.Path) bool {
	switch name {
	case "decimal", "ip", "datetime", "duration":
		return false
	}
	return true
}

// child prints n where the grammar requires at least level min.
func (p *c07Printer) child(n ast.IsNode, min int) {
	lv := c07Level(n)
	if lv < min || (p.full && lv < lvPrimary) {
		p.emit("(")
		p.node(n)
		p.emit(")")
		return
	}
	p.node(n)
}

func (p *c07Printer) infix(l ast.IsNode, op string, r ast.IsNode, lmin, rmin int) {
	p.child(l, lmin)
	p.emit(op)
	p.child(r, rmin)
}

func c07Quote(s string) string {
	// only used with strings that need no escapes, except the explicit escape tests
	return "\"" + s + "\""
}

func (p *c07Printer) node(n ast.IsNode) {
	switch v := n.(type) {
	case ast.NodeTypeIfThenElse:
		p.emit("if")
		p.child(v.If, lvIf)
		p.emit("then")
		p.child(v.Then, lvIf)
		p.emit("else")
		p.child(v.Else, lvIf)
	case ast.NodeTypeOr:
		p.infix(v.Left, "||", v.Right, lvOr, lvAnd)
	case ast.NodeTypeAnd:
		p.infix(v.Left, "&&", v.Right, lvAnd, lvRel)
	case ast.NodeTypeEquals:
		p.infix(v.Left, "==", v.Right, lvAdd, lvAdd)
	case ast.NodeTypeNotEquals:
		p.infix(v.Left, "!=", v.Right, lvAdd, lvAdd)
	case ast.NodeTypeLessThan:
		p.infix(v.Left, "<", v.Right, lvAdd, lvAdd)
	case ast.NodeTypeLessThanOrEqual:
		p.infix(v.Left, "<=", v.Right, lvAdd, lvAdd)
	case ast.NodeTypeGreaterThan:
		p.infix(v.Left, ">", v.Right, lvAdd, lvAdd)
	case ast.NodeTypeGreaterThanOrEqual:
		p.infix(v.Left, ">=", v.Right, lvAdd, lvAdd)
	case ast.NodeTypeIn:
		p.infix(v.Left, "in", v.Right, lvAdd, lvAdd)
	case ast.NodeTypeHas:
		p.child(v.Arg, lvAdd)
		p.emit("has")
		p.emit(string(v.Value)) // identifier form
	case ast.NodeTypeLike:
		p.child(v.Arg, lvAdd)
		p.emit("like")
		p.emit(string(v.Value.MarshalCedar()))
	case ast.NodeTypeIs:
		p.child(v.Left, lvAdd)
		p.emit("is", string(v.EntityType))
	case ast.NodeTypeIsIn:
		p.child(v.Left, lvAdd)
		p.emit("is", string(v.EntityType), "in")
		p.child(v.Entity, lvAdd)
	case ast.NodeTypeAdd:
		p.infix(v.Left, "+", v.Right, lvAdd, lvMul)
	case ast.NodeTypeSub:
		p.infix(v.Left, "-", v.Right, lvAdd, lvMul)
	case ast.NodeTypeMult:
		p.infix(v.Left, "*", v.Right, lvMul, lvUnary)
	case ast.NodeTypeNot:
		p.emit("!")
		p.child(v.Arg, lvUnary)
	case ast.NodeTypeNegate:
		p.emit("-")
		// "-" directly before an integer literal denotes a negative literal in cedar-go's AST,
		// so the negation of a literal is written with parentheses
		if _, isVal := v.Arg.(ast.NodeValue); isVal {
			p.emit("(")
			p.node(v.Arg)
			p.emit(")")
		} else {
			p.child(v.Arg, lvUnary)
		}
	case ast.NodeTypeAccess:
		p.child(v.Arg, lvMember)
		p.emit(".", string(v.Value))
	case ast.NodeTypeContains:
		p.method(v.Left, "contains", v.Right)
	case ast.NodeTypeContainsAll:
		p.method(v.Left, "containsAll", v.Right)
	case ast.NodeTypeContainsAny:
		p.method(v.Left, "containsAny", v.Right)
	case ast.NodeTypeGetTag:
		p.method(v.Left, "getTag", v.Right)
	case ast.NodeTypeHasTag:
		p.method(v.Left, "hasTag", v.Right)
	case ast.NodeTypeIsEmpty:
		p.method(v.Arg, "isEmpty")
	case ast.NodeTypeExtensionCall:
		if c07IsMethod(v.Name) {
			p.method(v.Args[0], string(v.Name), v.Args[1:]...)
		} else {
			p.emit(string(v.Name), "(")
			for i, a := range v.Args {
				if i > 0 {
					p.emit(",")
				}
				p.child(a, lvIf)
			}
			p.emit(")")
		}
	case ast.NodeTypeSet:
		p.emit("[")
		for i, e := range v.Elements {
			if i > 0 {
				p.emit(",")
			}
			p.child(e, lvIf)
		}
		p.emit("]")
	case ast.NodeTypeRecord:
		p.emit("{")
		for i, e := range v.Elements {
			if i > 0 {
				p.emit(",")
			}
			p.emit(c07Quote(string(e.Key)), ":")
			p.child(e.Value, lvIf)
		}
		p.emit("}")
	case ast.NodeTypeVariable:
		p.emit(string(v.Name))
	case ast.NodeValue:
		p.emit(string(v.Value.MarshalCedar()))
	default:
		panic("c07: unknown node")
	}
}

func (p *c07Printer) method(recv ast.IsNode, name string, args ...ast.IsNode) {
	p.child(recv, lvMember)
	p.emit(".", name, "(")
	for i, a := range args {
		if i > 0 {
			p.emit(",")
		}
		p.child(a, lvIf)
	}
	p.emit(")")
}

// c07EqNode: structural equality of expression trees (no reflect).
func c07EqNode(a, b ast.IsNode) bool {
	bin := func(x, y ast.BinaryNode) bool { return c07EqNode(x.Left, y.Left) && c07EqNode(x.Right, y.Right) }
	switch x := a.(type) {
	case ast.NodeTypeIfThenElse:
		y, ok := b.(ast.NodeTypeIfThenElse)
		return ok && c07EqNode(x.If, y.If) && c07EqNode(x.Then, y.Then) && c07EqNode(x.Else, y.Else)
	case ast.NodeTypeOr:
		y, ok := b.(ast.NodeTypeOr)
		return ok && bin(x.BinaryNode, y.BinaryNode)
	case ast.NodeTypeAnd:
		y, ok := b.(ast.NodeTypeAnd)
		return ok && bin(x.BinaryNode, y.BinaryNode)
	case ast.NodeTypeEquals:
		y, ok := b.(ast.NodeTypeEquals)
		return ok && bin(x.BinaryNode, y.BinaryNode)
	case ast.NodeTypeNotEquals:
		y, ok := b.(ast.NodeTypeNotEquals)
		return ok && bin(x.BinaryNode, y.BinaryNode)
	case ast.NodeTypeLessThan:
		y, ok := b.(ast.NodeTypeLessThan)
		return ok && bin(x.BinaryNode, y.BinaryNode)
	case ast.NodeTypeLessThanOrEqual:
		y, ok := b.(ast.NodeTypeLessThanOrEqual)
		return ok && bin(x.BinaryNode, y.BinaryNode)
	case ast.NodeTypeGreaterThan:
		y, ok := b.(ast.NodeTypeGreaterThan)
		return ok && bin(x.BinaryNode, y.BinaryNode)
	case ast.NodeTypeGreaterThanOrEqual:
		y, ok := b.(ast.NodeTypeGreaterThanOrEqual)
		return ok && bin(x.BinaryNode, y.BinaryNode)
	case ast.NodeTypeIn:
		y, ok := b.(ast.NodeTypeIn)
		return ok && bin(x.BinaryNode, y.BinaryNode)
	case ast.NodeTypeAdd:
		y, ok := b.(ast.NodeTypeAdd)
		return ok && bin(x.BinaryNode, y.BinaryNode)
	case ast.NodeTypeSub:
		y, ok := b.(ast.NodeTypeSub)
		return ok && bin(x.BinaryNode, y.BinaryNode)
	case ast.NodeTypeMult:
		y, ok := b.(ast.NodeTypeMult)
		return ok && bin(x.BinaryNode, y.BinaryNode)
	case ast.NodeTypeContains:
		y, ok := b.(ast.NodeTypeContains)
		return ok && bin(x.BinaryNode, y.BinaryNode)
	case ast.NodeTypeContainsAll:
		y, ok := b.(ast.NodeTypeContainsAll)
		return ok && bin(x.BinaryNode, y.BinaryNode)
	case ast.NodeTypeContainsAny:
		y, ok := b.(ast.NodeTypeContainsAny)
		return ok && bin(x.BinaryNode, y.BinaryNode)
	case ast.NodeTypeGetTag:
		y, ok := b.(ast.NodeTypeGetTag)
		return ok && bin(x.BinaryNode, y.BinaryNode)
	case ast.NodeTypeHasTag:
		y, ok := b.(ast.NodeTypeHasTag)
		return ok && bin(x.BinaryNode, y.BinaryNode)
	case ast.NodeTypeHas:
		y, ok := b.(ast.NodeTypeHas)
		return ok && x.Value == y.Value && c07EqNode(x.Arg, y.Arg)
	case ast.NodeTypeAccess:
		y, ok := b.(ast.NodeTypeAccess)
		return ok && x.Value == y.Value && c07EqNode(x.Arg, y.Arg)
	case ast.NodeTypeLike:
		y, ok := b.(ast.NodeTypeLike)
		return ok && string(x.Value.MarshalCedar()) == string(y.Value.MarshalCedar()) && c07EqNode(x.Arg, y.Arg)
	case ast.NodeTypeIs:
		y, ok := b.(ast.NodeTypeIs)
		return ok && x.EntityType == y.EntityType && c07EqNode(x.Left, y.Left)
	case ast.NodeTypeIsIn:
		y, ok := b.(ast.NodeTypeIsIn)
		return ok && x.EntityType == y.EntityType && c07EqNode(x.Left, y.Left) && c07EqNode(x.Entity, y.Entity)
	case ast.NodeTypeNot:
		y, ok := b.(ast.NodeTypeNot)
		return ok && c07EqNode(x.Arg, y.Arg)
	case ast.NodeTypeNegate:
		y, ok := b.(ast.NodeTypeNegate)
		return ok && c07EqNode(x.Arg, y.Arg)
	case ast.NodeTypeIsEmpty:
		y, ok := b.(ast.NodeTypeIsEmpty)
		return ok && c07EqNode(x.Arg, y.Arg)
	case ast.NodeTypeExtensionCall:
		y, ok := b.(ast.NodeTypeExtensionCall)
		if !ok || x.Name != y.Name || len(x.Args) != len(y.Args) {
			return false
		}
		for i := range x.Args {
			if !c07EqNode(x.Args[i], y.Args[i]) {
				return false
			}
		}
		return true
	case ast.NodeTypeSet:
		y, ok := b.(ast.NodeTypeSet)
		if !ok || len(x.Elements) != len(y.Elements) {
			return false
		}
		for i := range x.Elements {
			if !c07EqNode(x.Elements[i], y.Elements[i]) {
				return false
			}
		}
		return true
	case ast.NodeTypeRecord:
		y, ok := b.(ast.NodeTypeRecord)
		if !ok || len(x.Elements) != len(y.Elements) {
			return false
		}
		for i := range x.Elements {
			if x.Elements[i].Key != y.Elements[i].Key || !c07EqNode(x.Elements[i].Value, y.Elements[i].Value) {
				return false
			}
		}
		return true
	case ast.NodeTypeVariable:
		y, ok := b.(ast.NodeTypeVariable)
		return ok && x.Name == y.Name
	case ast.NodeValue:
		y, ok := b.(ast.NodeValue)
		return ok && x.Value.Equal(y.Value) && y.Value.Equal(x.Value)
	}
	return false
}

// ---- generator ----

var c07BinNames = []string{"||", "&&", "==", "!=", "<", "<=", ">", ">=", "in", "+", "-", "*", "contains", "containsAll", "containsAny", "getTag", "hasTag", "lessThan", "offset"}

func c07Bin(op int, l, r ast.Node) ast.Node {
	switch op {
	case 0:
		return l.Or(r)
	case 1:
		return l.And(r)
	case 2:
		return l.Equal(r)
	case 3:
		return l.NotEqual(r)
	case 4:
		return l.LessThan(r)
	case 5:
		return l.LessThanOrEqual(r)
	case 6:
		return l.GreaterThan(r)
	case 7:
		return l.GreaterThanOrEqual(r)
	case 8:
		return l.In(r)
	case 9:
		return l.Add(r)
	case 10:
		return l.Subtract(r)
	case 11:
		return l.Multiply(r)
	case 12:
		return l.Contains(r)
	case 13:
		return l.ContainsAll(r)
	case 14:
		return l.ContainsAny(r)
	case 15:
		return l.GetTag(r)
	case 16:
		return l.HasTag(r)
	case 17:
		return l.DecimalLessThan(r)
	case 18:
		return l.Offset(r)
	}
	panic("c07Bin")
}

var c07UnNames = []string{"!", "-", ".attr", "has", "like", "is", "is-in", "isEmpty", "if-cond", "if-then", "if-else", "isIpv4", "decimal()", "set", "record", "is-in-rhs"}

func c07Un(op int, x ast.Node) ast.Node {
	switch op {
	case 0:
		return ast.Not(x)
	case 1:
		return ast.Negate(x)
	case 2:
		return x.Access("attr")
	case 3:
		return x.Has("attr")
	case 4:
		return x.Like(types.NewPattern(types.String("a"), types.Wildcard{}))
	case 5:
		return x.Is("NS::T")
	case 6:
		return x.IsIn("T", ast.Resource())
	case 7:
		return x.IsEmpty()
	case 8:
		return ast.IfThenElse(x, ast.Long(1), ast.Long(2))
	case 9:
		return ast.IfThenElse(ast.True(), x, ast.Long(2))
	case 10:
		return ast.IfThenElse(ast.True(), ast.Long(1), x)
	case 11:
		return x.IsIpv4()
	case 12:
		return ast.ExtensionCall("decimal", x)
	case 13:
		return ast.Set(x, ast.Long(1))
	case 14:
		return ast.Record(ast.Pairs{{Key: "k", Value: x}, {Key: "k 2", Value: ast.Long(1)}})
	case 15:
		// the operand of `in` after `is T` is an Add-level expression of its own
		return ast.Principal().IsIn("T", x)
	}
	panic("c07Un")
}

func c07Leaf(label string) ast.Node {
	switch vrt.Choice(label, 6) {
	case 0:
		return ast.Long(7)
	case 1:
		return ast.Long(-5)
	case 2:
		return ast.True()
	case 3:
		return ast.String("s")
	case 4:
		return ast.Principal()
	default:
		return ast.Context()
	}
}

func c07Ops() (bin, un []int) {
	if vrt.Thorough() {
		for i := range c07BinNames {
			bin = append(bin, i)
		}
		for i := range c07UnNames {
			un = append(un, i)
		}
		return
	}
	// one or two representatives per precedence level
	return []int{0, 1, 2, 4, 8, 9, 10, 11, 12}, []int{0, 1, 2, 3, 5, 6, 7, 8, 10, 12, 13, 15}
}

// c07Text joins the tokens with single spaces, except for one gap that is a
// symbolic whitespace byte or a line comment with a symbolic body byte.
func c07Text(toks []string) string {
	gap := vrt.Choice("gap", len(toks)+1)
	kind := vrt.Choice("gap-kind", 3)
	var sb strings.Builder
	for i, t := range toks {
		if i == gap {
			switch kind {
			case 0:
				w := vrt.Byte("ws")
				vrt.Assume(vrt.Or(vrt.Or(w == ' ', w == '\t'), vrt.Or(w == '\n', w == '\r')))
				sb.WriteByte(w)
			case 1:
				c := vrt.Byte("comment")
				vrt.Assume(vrt.And(c != '\n', c < 0x80))
				if c == 0 {
					vrt.Tag("nul-in-comment")
				}
				sb.WriteString(" //")
				sb.WriteByte(c)
				sb.WriteString("\n")
			case 2:
				sb.WriteString("\n\t ")
			}
		} else if i > 0 {
			sb.WriteByte(' ')
		}
		sb.WriteString(t)
	}
	return sb.String()
}

func c07ParseCond(n ast.Node, full bool, layout bool) (ast.IsNode, string, error) {
	p := &c07Printer{full: full}
	p.emit("permit", "(", "principal", ",", "action", ",", "resource", ")", "when", "{")
	p.node(n.AsIsNode())
	p.emit("}", ";")
	var text string
	if layout {
		text = c07Text(p.toks)
	} else {
		text = strings.Join(p.toks, " ")
	}
	var pol Policy
	if err := pol.UnmarshalCedar([]byte(text)); err != nil {
		return nil, text, err
	}
	if len(pol.Conditions) != 1 {
		return nil, text, nil
	}
	return pol.Conditions[0].Body, text, nil
}

func c07Check(n ast.Node) {
	full := vrt.Choice("fully-parenthesised", 2) == 1
	got, _, err := c07ParseCond(n, full, false)
	if full {
		vrt.Cover("C07.full-parens")
	} else {
		vrt.Cover("C07.minimal-parens")
	}
	vrt.Assert("C07.parses", err == nil)
	vrt.Assert("C07.same-tree", got != nil && c07EqNode(n.AsIsNode(), got))
}

func VerifC07_Unary() {
	_, un := c07Ops()
	op := un[vrt.Choice("op", len(un))]
	c07Check(c07Un(op, c07Leaf("x")))
}

func VerifC07_Binary() {
	bin, _ := c07Ops()
	op := bin[vrt.Choice("op", len(bin))]
	c07Check(c07Bin(op, c07Leaf("l"), c07Leaf("r")))
}

// Precedence and associativity: every (parent, child, side) pairing.
func VerifC07_Pairs() {
	bin, un := c07Ops()
	a, b, c := ast.Long(7), ast.Principal(), ast.Long(-5)
	pickB := func(l string) int { return bin[vrt.Choice(l, len(bin))] }
	pickU := func(l string) int { return un[vrt.Choice(l, len(un))] }
	var n ast.Node
	switch vrt.Choice("shape", 6) {
	case 0:
		n = c07Bin(pickB("parent"), c07Bin(pickB("child"), a, b), c)
		vrt.Cover("C07.pairs.left-nested")
	case 1:
		n = c07Bin(pickB("parent"), a, c07Bin(pickB("child"), b, c))
		vrt.Cover("C07.pairs.right-nested")
	case 2:
		n = c07Un(pickU("parent"), c07Bin(pickB("child"), a, b))
	case 3:
		n = c07Bin(pickB("parent"), c07Un(pickU("child"), a), b)
	case 4:
		n = c07Bin(pickB("parent"), b, c07Un(pickU("child"), a))
	case 5:
		n = c07Un(pickU("parent"), c07Un(pickU("child"), a))
	}
	c07Check(n)
}

// Three operators: chains and mixed nestings at depth 3 (a child that needs
// parentheses below a grandchild that does not, associativity of equal levels
// across two steps, unary operators between binary ones).
func VerifC07_Triples() {
	bin, un := c07Ops()
	if !vrt.Thorough() {
		bin, un = []int{0, 2, 4, 9, 11}, []int{0, 1, 5, 10, 15}
	}
	a, b, c, d := ast.Long(7), ast.Principal(), ast.Long(-5), ast.Context().Access("k")
	pickB := func(l string) int { return bin[vrt.Choice(l, len(bin))] }
	pickU := func(l string) int { return un[vrt.Choice(l, len(un))] }
	var n ast.Node
	switch vrt.Choice("shape", 7) {
	case 0:
		n = c07Bin(pickB("top"), c07Bin(pickB("mid"), c07Bin(pickB("low"), a, b), c), d)
	case 1:
		n = c07Bin(pickB("top"), a, c07Bin(pickB("mid"), b, c07Bin(pickB("low"), c, d)))
	case 2:
		n = c07Bin(pickB("top"), c07Bin(pickB("mid"), a, b), c07Bin(pickB("low"), c, d))
	case 3:
		n = c07Bin(pickB("top"), a, c07Bin(pickB("mid"), c07Bin(pickB("low"), b, c), d))
	case 4:
		n = c07Bin(pickB("top"), c07Un(pickU("mid"), c07Bin(pickB("low"), a, b)), c)
	case 5:
		n = c07Un(pickU("top"), c07Bin(pickB("mid"), c07Un(pickU("low"), a), b))
	case 6:
		n = c07Bin(pickB("top"), c07Bin(pickB("mid"), a, c07Un(pickU("low"), b)), c)
	}
	vrt.Cover("C07.triples")
	c07Check(n)
}

// Layout: whitespace and comments between any two tokens do not change the tree.
func VerifC07_Layout() {
	n := ast.Principal().Access("attr").Equal(ast.Long(-5)).And(ast.Not(ast.Context().Has("attr")))
	got, _, err := c07ParseCond(n, false, true)
	vrt.Cover("C07.layout")
	vrt.Assert("C07.layout.parses", err == nil)
	vrt.Assert("C07.layout.same-tree", got != nil && c07EqNode(n.AsIsNode(), got))
}

// Literals: integers at the int64 boundary, string escapes.
func VerifC07_Literals() {
	switch vrt.Choice("kind", 4) {
	case 0:
		for _, v := range []int64{0, 9223372036854775807, -9223372036854775808} {
			got, _, err := c07ParseCond(ast.Long(v).Equal(ast.Long(1)), false, false)
			vrt.Assert("C07.literal.long-parses", err == nil)
			vrt.Assert("C07.literal.long-tree", got != nil && c07EqNode(ast.Long(v).Equal(ast.Long(1)).AsIsNode(), got))
		}
		vrt.Cover("C07.literal.long")
	case 1:
		// one symbolic digit in each position of a 3-digit number
		d := vrt.Bytes("digits", 3)
		for _, c := range d {
			vrt.Assume(vrt.And(c >= '0', c <= '9'))
		}
		want := int64(d[0]-'0')*100 + int64(d[1]-'0')*10 + int64(d[2]-'0')
		text := "permit ( principal , action , resource ) when { " + string(d) + " == 1 } ;"
		var pol Policy
		err := pol.UnmarshalCedar([]byte(text))
		vrt.Cover("C07.literal.digits")
		vrt.Assert("C07.literal.digits-parse", err == nil)
		if err == nil {
			eq, ok := pol.Conditions[0].Body.(ast.NodeTypeEquals)
			vrt.Assert("C07.literal.digits-shape", ok)
			v, ok := eq.Left.(ast.NodeValue)
			vrt.Assert("C07.literal.digits-value", ok && v.Value == types.Long(want))
		}
	case 2:
		// string escapes: every documented escape decodes to its character
		esc := []struct{ text, want string }{{`\n`, "\n"}, {`\r`, "\r"}, {`\t`, "\t"}, {`\\`, "\\"}, {`\0`, "\x00"}, {`\'`, "'"}, {`\"`, "\""}, {`\x41`, "A"}, {`\u{41}`, "A"}, {`\u{1F600}`, "\U0001F600"}}
		k := vrt.Choice("escape", len(esc))
		text := `permit ( principal , action , resource ) when { "a` + esc[k].text + `b" == "" } ;`
		var pol Policy
		err := pol.UnmarshalCedar([]byte(text))
		vrt.Cover("C07.literal.escapes")
		vrt.Assert("C07.literal.escape-parses", err == nil)
		if err == nil {
			eq := pol.Conditions[0].Body.(ast.NodeTypeEquals)
			v, ok := eq.Left.(ast.NodeValue)
			vrt.Assert("C07.literal.escape-value", ok && v.Value == types.String("a"+esc[k].want+"b"))
		}
	case 3:
		// a symbolic printable ASCII byte inside a string literal stands for itself
		c := vrt.Byte("char")
		vrt.Assume(vrt.And(vrt.And(c >= 0x20, c < 0x7f), vrt.And(c != '"', c != '\\')))
		text := "permit ( principal , action , resource ) when { \"a" + string([]byte{c}) + "\" == \"\" } ;"
		var pol Policy
		err := pol.UnmarshalCedar([]byte(text))
		vrt.Cover("C07.literal.plain-char")
		vrt.Assert("C07.literal.plain-parses", err == nil)
		if err == nil {
			eq := pol.Conditions[0].Body.(ast.NodeTypeEquals)
			v, ok := eq.Left.(ast.NodeValue)
			vrt.Assert("C07.literal.plain-value", ok && v.Value == types.String("a"+string([]byte{c})))
		}
	}
}

// Texts outside the grammar are rejected.
func VerifC07_Reject() {
	bad := []string{
		`permit(principal,action,resource) when { 1 < 2 < 3 };`,
		`permit(principal,action,resource) when { 1 == 2 == 3 };`,
		`permit(principal,action,resource) when { principal has a has b };`,
		`permit(principal,action,resource) when { context.if };`,
		`permit(principal,action,resource) when { context.true == 1 };`,
		`permit(principal,action,resource) when { {if: 1} };`,
		`@id("a") @id("b") permit(principal,action,resource);`,
		`permit(principal,action,resource) when { {"a":1, "a":2} };`,
		`permit(principal,action,resource) when { {a:1, "a":2} };`,
		`permit(principal,action,resource) when { foo(1) };`,
		`permit(principal,action,resource) when { contains(1) };`,
		`permit(principal,action,resource) when { principal.decimal() };`,
		`permit(principal,action,resource) when { principal.foo() };`,
		`permit(principal,action,resource) when { lessThan(1, 2) };`,
		`permit(principal,action,resource) when { "abc };`,
		`permit(principal,action,resource) when { 9223372036854775808 };`,
		`permit(principal,action,resource) when { -9223372036854775809 };`,
		`permit(principal,action,resource) when { 1 + };`,
		`permit(principal,action,resource) when { "\q" };`,
		`permit(principal,action,resource) when { true } unless { };`,
		`permit(principal,action,resource) when { principal.isEmpty(1) };`,
		`permit(principal,action,resource) when { principal.contains() };`,
		`permit(principal,action) when { true };`,
		`allow(principal,action,resource);`,
		`permit(principal,action,resource) when { true }`,
		`permit(principal,action,resource) when { principal is };`,
		`permit(principal == ,action,resource);`,
		`permit(principal,action,resource) when { if true then 1 };`,
		`permit(principal,action,resource) when { !!!!!true };`,
		`permit(principal,action,resource) when { -----1 };`,
	}
	k := vrt.Choice("text", len(bad))
	if strings.Contains(bad[k], "!!!!!") || strings.Contains(bad[k], "-----") {
		vrt.Tag("more-than-4-unary-operators")
	}
	var pol Policy
	err := pol.UnmarshalCedar([]byte(bad[k]))
	vrt.Cover("C07.reject")
	vrt.Assert("C07.rejects-outside-grammar", err != nil)
}

// VEqNode exposes the structural tree equality to harnesses in other packages.
func VEqNode(a, b ast.IsNode) bool { return c07EqNode(a, b) }
