//go:build verif

package json

import (
	"github.com/cedar-policy/cedar-go/internal/parser"
	"github.com/cedar-policy/cedar-go/internal/vrt"
	"github.com/cedar-policy/cedar-go/types"
)

// C14 (decode, then re-encode): a record literal decoded from JSON must always
// re-encode to the same bytes; recordJSON is a Go map, so the order in which
// ToNode walks it must not reach the output.
func VerifC14_JSONRecordOrder() {
	mk := func(v int64) *nodeJSON { return &nodeJSON{Value: &valueJSON{v: types.Long(v)}} }
	r := recordJSON{"b": mk(2), "a": mk(1), "c": mk(3)}
	n := nodeJSON{Record: &r}
	first, err := n.ToNode()
	vrt.Assert("C14.jsonrecord.decodes", err == nil)
	want := parser.MarshalExpr(first.AsIsNode())
	vrt.Cover("C14.jsonrecord.checked")
	for i := 0; i < vrt.Repeat(200); i++ {
		vrt.NondetMapOrder(true)
		again, err2 := n.ToNode()
		vrt.NondetMapOrder(false)
		vrt.Assert("C14.jsonrecord.decodes-again", err2 == nil)
		got := parser.MarshalExpr(again.AsIsNode())
		if got != want {
			vrt.Tag("record-literal-order-from-go-map")
		}
		vrt.Assert("C14.jsonrecord.same-text", got == want)
	}
}
