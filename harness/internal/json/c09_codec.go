//go:build verif

package json

import (
	"bytes"

	"github.com/cedar-policy/cedar-go/internal/eval"
	"github.com/cedar-policy/cedar-go/internal/parser"
	"github.com/cedar-policy/cedar-go/internal/vrt"
	"github.com/cedar-policy/cedar-go/types"
	"github.com/cedar-policy/cedar-go/x/exp/ast"
)

// C09 (struct level): the conversion between the AST and the JSON structs
// (nodeJSON.FromNode/ToNode, scopeJSON.FromNode/To*Node) is the identity on
// every expression node and scope form, agrees with the text codec, and both
// forms evaluate identically.  The encoding/json byte layer is outside.

var c09Leaves = []int{eval.VLeafLong, eval.VLeafBool, eval.VLeafString, eval.VLeafCtxK, eval.VLeafEntity, eval.VLeafSet, eval.VLeafRecord, eval.VLeafPrincipal, eval.VLeafDecimal, eval.VLeafNegLong, eval.VLeafMinLong}

// c09HasExtLiteral: decimal and ipaddr *literal values* are encoded as calls of
// their constructor (documented), so trees containing one are compared by text
// and by evaluation only.
func c09HasExtLiteral(n ast.IsNode) bool {
	found := false
	ast.Inspect(ast.NewNode(n), func(x ast.IsNode) bool {
		if v, ok := x.(ast.NodeValue); ok {
			switch v.Value.(type) {
			case types.Decimal, types.IPAddr, types.Datetime, types.Duration:
				found = true
			}
		}
		return true
	})
	return found
}

func c09Check(n ast.Node) {
	var j nodeJSON
	j.FromNode(n.AsIsNode())
	back, err := j.ToNode()
	vrt.Cover("C09.node.checked")
	vrt.Assert("C09.node.decodes", err == nil)
	if !c09HasExtLiteral(n.AsIsNode()) {
		vrt.Assert("C09.node.identical-ast", parser.VEqNode(n.AsIsNode(), back.AsIsNode()))
	}
	// text -> AST -> JSON struct -> AST -> text is the same text as text -> AST -> text
	t1 := parser.MarshalExpr(n.AsIsNode())
	t2 := parser.MarshalExpr(back.AsIsNode())
	vrt.Assert("C09.node.same-text", vrt.EqString(t1, t2))
	// both evaluate identically
	g := eval.VGenMkEnv()
	v1, e1 := eval.ToEval(n.AsIsNode()).Eval(g.Env())
	v2, e2 := eval.ToEval(back.AsIsNode()).Eval(g.Env())
	vrt.Assert("C09.node.same-outcome", eval.VSameOutcome(v1, e1, v2, e2))
}

func VerifC09_UnaryNodes() {
	eval.VGenDigitPayloads(true)
	op := vrt.Choice("op", eval.VUnaryCount)
	x, _ := eval.VGenLeaf("x", c09Leaves)
	c09Check(eval.VGenUnary(op, x))
}

func VerifC09_BinaryNodes() {
	eval.VGenDigitPayloads(true)
	op := vrt.Choice("op", eval.VOpBinaryCount)
	leaves := c09Leaves
	if !vrt.Thorough() {
		leaves = []int{eval.VLeafLong, eval.VLeafBool, eval.VLeafCtxK, eval.VLeafEntity, eval.VLeafSet, eval.VLeafNegLong}
	}
	l, _ := eval.VGenLeaf("l", leaves)
	r, _ := eval.VGenLeaf("r", leaves)
	// left and right must not be swapped: use distinguishable operands
	c09Check(eval.VGenBinary(op, l, r))
}

// Node kinds the generic generator does not build: like patterns, is / is-in,
// if-then-else with three different branches, extension functions and methods,
// record literals with several keys (compared by key), nested sets.
func VerifC09_SpecialNodes() {
	a, b, c := ast.Long(1), ast.String("two"), ast.Context().Access("k")
	var n ast.Node
	switch vrt.Choice("kind", 14) {
	case 10, 11, 12, 13:
		// literal VALUES of the extension types (not constructor calls): the JSON form has no
		// literal for them, so each must come back as a call of its own constructor that
		// evaluates to the same value
		ip, _ := types.ParseIPAddr("10.1.2.3/24")
		dec, _ := types.ParseDecimal("-1.5")
		lit := []types.Value{types.NewDurationFromMillis(5400000), types.NewDatetimeFromMillis(86400001), ip, dec}[vrt.Choice("ext-literal", 4)]
		c09Check(ast.Value(lit).Equal(c))
		return
	case 0:
		n = b.Like(types.NewPattern(types.String("a*"), types.Wildcard{}, types.String("\\"), types.Wildcard{}))
	case 1:
		n = ast.Principal().Is("NS::T")
	case 2:
		n = ast.Principal().IsIn("NS::T", ast.Resource())
	case 3:
		n = ast.IfThenElse(c, a, b)
	case 4:
		n = ast.ExtensionCall("decimal", b)
	case 5:
		n = ast.ExtensionCall("lessThan", ast.ExtensionCall("decimal", b), ast.ExtensionCall("decimal", ast.String("1.0")))
	case 6:
		n = ast.Record(ast.Pairs{{Key: "x", Value: a}, {Key: "y z", Value: b}, {Key: "", Value: c}})
	case 7:
		n = ast.Set(ast.Set(a), ast.Set(), b)
	case 8:
		n = c.GetTag(b).HasTag(ast.String("t"))
	case 9:
		n = ast.Context().Has("a b").And(ast.Context().Access("a b").Equal(a))
	}
	var j nodeJSON
	j.FromNode(n.AsIsNode())
	back, err := j.ToNode()
	vrt.Cover("C09.special.checked")
	vrt.Assert("C09.special.decodes", err == nil)
	if _, isRec := n.AsIsNode().(ast.NodeTypeRecord); isRec {
		// record entries are compared by key
		want := n.AsIsNode().(ast.NodeTypeRecord)
		got, ok := back.AsIsNode().(ast.NodeTypeRecord)
		vrt.Assert("C09.special.record-shape", ok && len(got.Elements) == len(want.Elements))
		for _, w := range want.Elements {
			found := false
			for _, g := range got.Elements {
				if g.Key == w.Key && parser.VEqNode(w.Value, g.Value) {
					found = true
				}
			}
			vrt.Assert("C09.special.record-entry", found)
		}
		return
	}
	vrt.Assert("C09.special.identical-ast", parser.VEqNode(n.AsIsNode(), back.AsIsNode()))
}

func VerifC09_Scopes() {
	e := types.NewEntityUID("NS::T", "e")
	e2 := types.NewEntityUID("T", "f")
	var s ast.IsScopeNode
	k := vrt.Choice("scope", 7)
	switch k {
	case 0:
		s = ast.ScopeTypeAll{}
	case 1:
		s = ast.ScopeTypeEq{Entity: e}
	case 2:
		s = ast.ScopeTypeIn{Entity: e}
	case 3:
		s = ast.ScopeTypeIs{Type: "NS::T"}
	case 4:
		s = ast.ScopeTypeIsIn{Type: "NS::T", Entity: e2}
	case 5:
		s = ast.ScopeTypeInSet{Entities: []types.EntityUID{e, e2}}
	case 6:
		s = ast.ScopeTypeInSet{Entities: []types.EntityUID{}}
	}
	var j scopeJSON
	j.FromNode(s)
	vrt.Cover("C09.scope.checked")
	if k <= 4 {
		back, err := j.ToPrincipalResourceNode()
		vrt.Assert("C09.scope.principal-decodes", err == nil)
		vrt.Assert("C09.scope.principal-identical", err == nil && ast.IsScopeNode(back) == s)
	}
	if k <= 2 || k >= 5 {
		back, err := j.ToActionNode()
		vrt.Assert("C09.scope.action-decodes", err == nil)
		if err == nil {
			if set, ok := s.(ast.ScopeTypeInSet); ok {
				got, ok2 := back.(ast.ScopeTypeInSet)
				vrt.Assert("C09.scope.action-set", ok2 && len(got.Entities) == len(set.Entities))
				for i := range set.Entities {
					vrt.Assert("C09.scope.action-set-member", ok2 && got.Entities[i] == set.Entities[i])
				}
			} else {
				vrt.Assert("C09.scope.action-identical", ast.IsScopeNode(back) == s)
			}
		}
	}
	// text codec agrees: a policy with that scope renders to text that parses to the same scope
	p := &ast.Policy{Effect: ast.EffectForbid, Principal: ast.ScopeTypeAll{}, Action: ast.ScopeTypeAll{}, Resource: ast.ScopeTypeAll{}}
	if k <= 4 {
		p.Principal = s.(ast.IsPrincipalScopeNode)
	} else {
		p.Action = s.(ast.IsActionScopeNode)
	}
	var buf bytes.Buffer
	(*parser.Policy)(p).MarshalCedar(&buf)
	var q parser.Policy
	vrt.Assert("C09.scope.text-parses", q.UnmarshalCedar(buf.Bytes()) == nil)
}

// Policy level, encoder side: the JSON of a policy is composed of the JSON of
// its parts (inside the executor encoding/json.Marshal is a structural stub, so
// this observes what cedar-go hands to the encoder): every clause appears with
// exactly the encoding it has on its own, in clause order.
func VerifC09_PolicyJSONComposition() {
	bodies := []ast.Node{
		ast.Principal().Equal(ast.Value(types.NewEntityUID("User", "alice"))),
		ast.Resource().In(ast.Value(types.NewEntityUID("Folder", "secret"))),
		ast.Context().Access("k").LessThan(ast.Long(3)),
		ast.ExtensionCall("decimal", ast.String("1.0")).DecimalLessThan(ast.ExtensionCall("decimal", ast.String("2.0"))),
		ast.Context().Has("x").And(ast.Not(ast.Context().Access("x").IsEmpty())),
		ast.IfThenElse(ast.True(), ast.Long(1), ast.Long(2)).Equal(ast.Long(1)),
	}
	i, j := vrt.Choice("first", len(bodies)), vrt.Choice("second", len(bodies))
	var k1, k2 ast.Condition = ast.ConditionWhen, ast.ConditionWhen
	if vrt.Choice("first-unless", 2) == 1 {
		k1 = ast.ConditionUnless
	}
	if vrt.Choice("second-unless", 2) == 1 {
		k2 = ast.ConditionUnless
	}
	p := &Policy{Effect: ast.EffectPermit, Principal: ast.ScopeTypeAll{}, Action: ast.ScopeTypeAll{}, Resource: ast.ScopeTypeAll{},
		Conditions: []ast.ConditionType{{Condition: k1, Body: bodies[i].AsIsNode()}, {Condition: k2, Body: bodies[j].AsIsNode()}}}
	full, err := p.MarshalJSON()
	vrt.Cover("C09.policyjson.checked")
	vrt.Assert("C09.policyjson.encodes", err == nil)
	single := func(k ast.Condition, n ast.Node) []byte {
		q := &Policy{Effect: ast.EffectPermit, Principal: ast.ScopeTypeAll{}, Action: ast.ScopeTypeAll{}, Resource: ast.ScopeTypeAll{},
			Conditions: []ast.ConditionType{{Condition: k, Body: n.AsIsNode()}}}
		b, _ := q.MarshalJSON()
		// the clause list of the one-clause policy: "conditions":[ ... ]
		at := bytes.Index(b, []byte(`"conditions":[`))
		return b[at+len(`"conditions":[`) : len(b)-2]
	}
	c1, c2 := single(k1, bodies[i]), single(k2, bodies[j])
	want := append(append(append([]byte{}, c1...), ','), c2...)
	vrt.Assert("C09.policyjson.clauses-compose", bytes.Contains(full, want))
}

// Byte level: Policy.MarshalJSON -> bytes -> Policy.UnmarshalJSON through the
// executor's model of encoding/json (struct tags, omitempty, the unknown-key =
// extension-call rule of nodeJSON.UnmarshalJSON with DisallowUnknownFields, the
// policy envelope) yields the identical policy, the same Cedar text, the same
// evaluation and byte-identical JSON on the second trip.
func VerifC09_PolicyBytes() {
	eval.VGenDigitPayloads(true)
	p := &Policy{Effect: ast.EffectPermit, Principal: ast.ScopeTypeAll{}, Action: ast.ScopeTypeAll{}, Resource: ast.ScopeTypeAll{}}
	if vrt.Choice("effect", 2) == 1 {
		p.Effect = ast.EffectForbid
	}
	e, e2 := types.NewEntityUID("NS::T", "e"), types.NewEntityUID("T", "f")
	var body ast.Node
	switch vrt.Choice("vary", 5) {
	case 0: // annotations (a symbolic rune in the value; keys sorted / duplicate-free)
		r := vrt.Rune("annotation-rune")
		if vrt.Thorough() {
			vrt.Assume(vrt.And(r >= 0, r <= 0x10FFFF))
			vrt.Assume(vrt.Or(r < 0xD800, r > 0xDFFF))
		} else {
			vrt.Assume(vrt.And(r >= 0, r < 0x80))
		}
		p.Annotations = []ast.AnnotationType{{Key: "id", Value: types.String("v" + string(r))}, {Key: "b", Value: ""}}
		body = ast.True()
	case 1: // scopes
		switch vrt.Choice("scope", 7) {
		case 0:
			p.Principal = ast.ScopeTypeEq{Entity: e}
		case 1:
			p.Principal = ast.ScopeTypeIn{Entity: e}
		case 2:
			p.Resource = ast.ScopeTypeIs{Type: "NS::T"}
		case 3:
			p.Resource = ast.ScopeTypeIsIn{Type: "NS::T", Entity: e2}
		case 4:
			p.Action = ast.ScopeTypeInSet{Entities: []types.EntityUID{e, e2}}
		case 5:
			p.Action = ast.ScopeTypeEq{Entity: e}
		case 6:
			p.Action = ast.ScopeTypeIn{Entity: e2}
		}
		body = ast.True()
	case 2: // unary operators
		x, _ := eval.VGenLeaf("x", c09Leaves)
		body = eval.VGenUnary(vrt.Choice("op", eval.VUnaryCount), x)
	case 3: // binary operators
		leaves := c09Leaves
		if !vrt.Thorough() {
			leaves = []int{eval.VLeafLong, eval.VLeafCtxK, eval.VLeafEntity, eval.VLeafNegLong}
		}
		l, _ := eval.VGenLeaf("l", leaves)
		r, _ := eval.VGenLeaf("r", leaves)
		body = eval.VGenBinary(vrt.Choice("op", eval.VOpBinaryCount), l, r)
	case 4: // node kinds with their own JSON shape
		a, b, c := ast.Long(1), ast.String("two"), ast.Context().Access("k")
		switch vrt.Choice("kind", 12) {
		case 11:
			ip, _ := types.ParseIPAddr("10.1.2.3/24")
			dec, _ := types.ParseDecimal("-1.5")
			lit := []types.Value{types.NewDurationFromMillis(5400000), types.NewDatetimeFromMillis(86400001), ip, dec}[vrt.Choice("ext-literal", 4)]
			body = ast.Value(lit).Equal(c)
		case 0:
			body = b.Like(types.NewPattern(types.String("a*"), types.Wildcard{}, types.String("\\"), types.Wildcard{}))
		case 1:
			body = ast.Principal().Is("NS::T")
		case 2:
			body = ast.Principal().IsIn("NS::T", ast.Resource())
		case 3:
			body = ast.IfThenElse(c, a, b)
		case 4:
			body = ast.ExtensionCall("decimal", b)
		case 5:
			body = ast.ExtensionCall("lessThan", ast.ExtensionCall("decimal", b), ast.ExtensionCall("decimal", ast.String("1.0")))
		case 6:
			body = ast.Record(ast.Pairs{{Key: "x", Value: a}, {Key: "y z", Value: b}})
		case 7:
			body = ast.Set(ast.Set(a), ast.Set(), b)
		case 8:
			body = c.GetTag(b).HasTag(ast.String("t"))
		case 9:
			body = ast.Context().Has("a b").And(ast.Context().Access("a b").Equal(a))
		case 10:
			body = ast.ExtensionCall("isInRange", ast.ExtensionCall("ip", ast.String("1.2.3.4")), ast.ExtensionCall("ip", ast.String("1.0.0.0/8")))
		}
	}
	var kind ast.Condition = ast.ConditionWhen
	if vrt.Choice("unless", 2) == 1 {
		kind = ast.ConditionUnless
	}
	p.Conditions = []ast.ConditionType{{Condition: kind, Body: body.AsIsNode()}}
	b1, err := p.MarshalJSON()
	vrt.Assert("C09.bytes.encodes", err == nil)
	var q Policy
	err = q.UnmarshalJSON(b1)
	vrt.Cover("C09.bytes.checked")
	vrt.Assert("C09.bytes.decodes", err == nil)
	vrt.Assert("C09.bytes.effect", q.Effect == p.Effect)
	vrt.Assert("C09.bytes.annotation-count", len(q.Annotations) == len(p.Annotations))
	for _, want := range p.Annotations {
		found := false
		for _, got := range q.Annotations {
			if got.Key == want.Key && got.Value == want.Value {
				found = true
			}
		}
		vrt.Assert("C09.bytes.annotation", found)
	}
	sameScope := func(x, y ast.IsScopeNode) bool {
		xs, ok1 := x.(ast.ScopeTypeInSet)
		ys, ok2 := y.(ast.ScopeTypeInSet)
		if ok1 || ok2 {
			if !ok1 || !ok2 || len(xs.Entities) != len(ys.Entities) {
				return false
			}
			for i := range xs.Entities {
				if xs.Entities[i] != ys.Entities[i] {
					return false
				}
			}
			return true
		}
		return x == y
	}
	vrt.Assert("C09.bytes.principal", sameScope(q.Principal, p.Principal))
	vrt.Assert("C09.bytes.action", sameScope(q.Action, p.Action))
	vrt.Assert("C09.bytes.resource", sameScope(q.Resource, p.Resource))
	vrt.Assert("C09.bytes.condition-count", len(q.Conditions) == 1)
	vrt.Assert("C09.bytes.condition-kind", q.Conditions[0].Condition == kind)
	back := q.Conditions[0].Body
	if _, isRec := body.AsIsNode().(ast.NodeTypeRecord); !isRec && !c09HasExtLiteral(body.AsIsNode()) {
		vrt.Assert("C09.bytes.identical-ast", parser.VEqNode(body.AsIsNode(), back))
	}
	vrt.Assert("C09.bytes.same-text", vrt.EqString(parser.MarshalExpr(body.AsIsNode()), parser.MarshalExpr(back)))
	g := eval.VGenMkEnv()
	v1, e1 := eval.ToEval(body.AsIsNode()).Eval(g.Env())
	v2, e2x := eval.ToEval(back).Eval(g.Env())
	vrt.Assert("C09.bytes.same-outcome", eval.VSameOutcome(v1, e1, v2, e2x))
	b2, err := q.MarshalJSON()
	vrt.Assert("C09.bytes.encodes-again", err == nil)
	vrt.Assert("C09.bytes.stable", vrt.EqBytes(b1, b2))
}
