//go:build verif

package json

import (
	"bytes"

	"github.com/cedar-policy/cedar-go/internal/eval"
	"github.com/cedar-policy/cedar-go/internal/parser"
	"github.com/cedar-policy/cedar-go/internal/vrt"
	"github.com/cedar-policy/cedar-go/types"
	"github.com/cedar-policy/cedar-go/x/exp/ast"
)

// C10 (struct level): every nodeJSON / scopeJSON / policyJSON value that
// encoding/json can deliver (null pointers, empty arrays, missing members,
// unknown extension names) is turned into a value or an error without a panic,
// and every accepted value can be passed to every encoder and to the evaluator.

func c10Leaf() nodeJSON {
	switch vrt.Choice("leaf", 5) {
	case 0:
		return nodeJSON{Value: &valueJSON{v: types.Long(1)}}
	case 1:
		s := "context"
		return nodeJSON{Var: &s}
	case 2:
		return nodeJSON{} // an empty object {}
	case 3:
		s := "nope"
		return nodeJSON{Var: &s}
	default:
		return nodeJSON{Value: &valueJSON{v: types.NewSet(types.Long(1))}}
	}
}

func c10Node() nodeJSON {
	switch vrt.Choice("kind", 16) {
	case 0:
		return c10Leaf()
	case 1:
		return nodeJSON{Not: &unaryJSON{Arg: c10Leaf()}}
	case 2:
		return nodeJSON{IsEmpty: &unaryJSON{Arg: c10Leaf()}}
	case 3:
		return nodeJSON{Equals: &binaryJSON{Left: c10Leaf(), Right: c10Leaf()}}
	case 4:
		return nodeJSON{Contains: &binaryJSON{Left: c10Leaf(), Right: c10Leaf()}}
	case 5:
		return nodeJSON{Access: &strJSON{Left: c10Leaf(), Attr: ""}}
	case 6:
		return nodeJSON{Has: &strJSON{Left: c10Leaf(), Attr: "a b"}}
	case 7: // is, with and without "in"
		j := &isJSON{Left: c10Leaf(), EntityType: "T"}
		if vrt.Choice("has-in", 2) == 1 {
			l := c10Leaf()
			j.In = &l
		}
		return nodeJSON{Is: j}
	case 8:
		return nodeJSON{Like: &likeJSON{Left: c10Leaf()}} // zero pattern
	case 9:
		return nodeJSON{IfThenElse: &ifThenElseJSON{If: c10Leaf(), Then: c10Leaf(), Else: c10Leaf()}}
	case 10: // Set: nil array, empty array, one element
		var a arrayJSON
		switch vrt.Choice("set-len", 3) {
		case 1:
			a = arrayJSON{}
		case 2:
			a = arrayJSON{c10Leaf()}
		}
		return nodeJSON{Set: &a}
	case 11: // Record: empty, one entry, one *null* entry
		r := recordJSON{}
		switch vrt.Choice("record", 3) {
		case 1:
			l := c10Leaf()
			r["a"] = &l
		case 2:
			r["a"] = nil // {"Record": {"a": null}}
			vrt.Tag("record-entry-null")
		}
		return nodeJSON{Record: &r}
	case 12: // extension call by name with 0..2 arguments, incl. unknown names
		names := []string{"decimal", "lessThan", "isIpv4", "toDate", "offset", "isInRange", "unknown", "ip"}
		name := names[vrt.Choice("ext-name", len(names))]
		var args arrayJSON
		n := vrt.Choice("ext-args", 4)
		if n > 0 {
			args = arrayJSON{}
		}
		for i := 1; i < n; i++ {
			args = append(args, c10Leaf())
		}
		vrt.Tag("ext-args-" + string(rune('0'+n)))
		return nodeJSON{ExtensionCall: extensionJSON{name: args}}
	case 13: // two extension keys
		return nodeJSON{ExtensionCall: extensionJSON{"decimal": arrayJSON{}, "ip": arrayJSON{}}}
	case 14:
		return nodeJSON{Negate: &unaryJSON{Arg: c10Leaf()}}
	default:
		return nodeJSON{GetTag: &binaryJSON{Left: c10Leaf(), Right: c10Leaf()}}
	}
}

// c10UseNode passes an accepted node to every consumer; none may panic.
func c10UseNode(n ast.Node) {
	p := &ast.Policy{Effect: ast.EffectPermit, Principal: ast.ScopeTypeAll{}, Action: ast.ScopeTypeAll{}, Resource: ast.ScopeTypeAll{},
		Conditions: []ast.ConditionType{{Condition: ast.ConditionWhen, Body: n.AsIsNode()}}}
	var buf bytes.Buffer
	(*parser.Policy)(p).MarshalCedar(&buf)
	var j nodeJSON
	j.FromNode(n.AsIsNode())
	env := eval.Env{Entities: types.EntityMap{}, Principal: types.NewEntityUID("T", "e"), Action: types.NewEntityUID("Action", "a"), Resource: types.NewEntityUID("T", "r"), Context: types.Record{}}
	be := eval.Compile(p)
	_, _ = be.Eval(env)
	_, _ = eval.ToEval(n.AsIsNode()).Eval(env)
	env.Principal = eval.Variable("principal")
	_, _ = eval.PartialPolicy(env, p)
}

func VerifC10_NodeJSONNilness() {
	j := c10Node()
	n, err := j.ToNode()
	if err != nil {
		vrt.Cover("C10.nodejson.rejected")
		return
	}
	vrt.Cover("C10.nodejson.accepted")
	c10UseNode(n)
	vrt.Assert("C10.nodejson.no-panic", true)
}

func VerifC10_ScopeJSONNilness() {
	ops := []string{"All", "==", "in", "is", "", "like"}
	s := scopeJSON{Op: ops[vrt.Choice("op", len(ops))]}
	e := types.ImplicitlyMarshaledEntityUID(types.NewEntityUID("T", "e"))
	if vrt.Choice("entity", 2) == 1 {
		s.Entity = &e
	}
	switch vrt.Choice("entities", 3) {
	case 1:
		s.Entities = []types.ImplicitlyMarshaledEntityUID{}
	case 2:
		s.Entities = []types.ImplicitlyMarshaledEntityUID{e}
	}
	if vrt.Choice("in", 2) == 1 {
		s.In = &scopeInJSON{}
	}
	pj := policyJSON{Effect: []string{"permit", "forbid", ""}[vrt.Choice("effect", 3)], Principal: s, Action: s, Resource: s}
	if vrt.Choice("conditions", 2) == 1 {
		pj.Conditions = []conditionJSON{{Kind: []string{"when", "unless", ""}[vrt.Choice("kind", 3)], Body: c10Leaf()}}
	}
	// the same conversions UnmarshalJSON performs after encoding/json has filled the struct
	pr, err1 := s.ToPrincipalResourceNode()
	ac, err2 := s.ToActionNode()
	vrt.Cover("C10.scopejson.checked")
	if err1 == nil && err2 == nil {
		vrt.Cover("C10.scopejson.accepted")
		p := &ast.Policy{Effect: ast.EffectPermit, Principal: pr, Action: ac, Resource: pr}
		var buf bytes.Buffer
		(*parser.Policy)(p).MarshalCedar(&buf)
		var sj scopeJSON
		sj.FromNode(pr)
		sj.FromNode(ac)
		be := eval.Compile(p)
		_, _ = be.Eval(eval.Env{Entities: types.EntityMap{}, Principal: types.NewEntityUID("T", "e"), Action: types.NewEntityUID("Action", "a"), Resource: types.NewEntityUID("T", "r"), Context: types.Record{}})
	}
	_ = pj
	vrt.Assert("C10.scopejson.no-panic", true)
}
