//go:build verif

package eval

import (
	"github.com/cedar-policy/cedar-go/internal/vrt"
	"github.com/cedar-policy/cedar-go/types"
	"github.com/cedar-policy/cedar-go/x/exp/ast"
)

// C01 operator x operand-kind matrix: every operator applied to leaves of every
// value kind (and to erroring / store-dependent leaves), compared with the
// reference evaluator of spec_eval.go: same value, or the same error class.

var c01Leaves = []int{leafLong, leafBool, leafString, leafOverflow, leafTypeErr, leafCtxK, leafCtxB, leafEntity, leafAbsent, leafSet, leafRecord, leafPrincipal, leafCtxRec, leafDecimal, leafCtxS, leafDatetime, leafDuration, leafIP, leafSetOfEntities, leafEmptySet}
var c01LeavesQuick = []int{leafLong, leafBool, leafString, leafOverflow, leafEntity, leafAbsent, leafSet, leafRecord, leafDecimal, leafDatetime, leafDuration, leafSetOfEntities}

func c01LeafSet() []int {
	if vrt.Thorough() {
		return c01Leaves
	}
	return c01LeavesQuick
}

func c01Compare(n ast.Node, g genEnv) {
	v, err := ToEval(n.AsIsNode()).Eval(g.env)
	want := specEval(n.AsIsNode(), g.env)
	got := VErrClass(err)
	_ = got
	if want.err != "" {
		vrt.Cover("C01.matrix.error-expected")
		vrt.Tag("expected-" + want.err)
		// the property fixes *when* evaluation fails; which of two failing operands is
		// reported first is not part of it, so only error-ness is asserted
		vrt.Assert("C01.matrix.reports-error", err != nil)
		c01Policy(n, g, false, true)
		return
	}
	vrt.Cover("C01.matrix.value-expected")
	if err != nil {
		vrt.Tag("unexpected-" + got)
	}
	vrt.Assert("C01.matrix.no-error", err == nil)
	vrt.Assert("C01.matrix.value", specEqual(want.v, v) && specEqual(v, want.v))
	b, isBool := want.v.(types.Boolean)
	c01Policy(n, g, isBool && bool(b), !isBool)
}

// c01Policy observes the same expression the way Authorize does: as the condition of a
// compiled one-policy set (satisfied / erroring).
func c01Policy(n ast.Node, g genEnv, wantSat, wantErr bool) {
	p := &ast.Policy{Effect: ast.EffectPermit, Principal: ast.ScopeTypeAll{}, Action: ast.ScopeTypeAll{}, Resource: ast.ScopeTypeAll{},
		Conditions: []ast.ConditionType{{Condition: ast.ConditionWhen, Body: n.AsIsNode()}}}
	be := Compile(p)
	sat, err := be.Eval(g.env)
	vrt.Assert("C01.policy.erroring", (err != nil) == wantErr)
	vrt.Assert("C01.policy.satisfied", bool(sat) == (wantSat && !wantErr))
}

func VerifC01_MatrixUnary() {
	vrt.Theory("int")
	genDigitPayloads = true
	g := genMkEnv()
	op := vrt.Choice("op", uUnaryCount+len(c01ExtUnary))
	x, _ := genLeaf("x", c01LeafSet())
	if op < uUnaryCount {
		c01Compare(genUnary(op, x), g)
		return
	}
	c01Compare(ast.ExtensionCall(c01ExtUnary[op-uUnaryCount], x), g)
}

var c01ExtUnary = []types.Path{"decimal", "ip", "datetime", "duration", "isIpv4", "isLoopback", "toDate", "toTime", "toDays", "toMilliseconds", "nosuchfn"}
var c01ExtBinary = []types.Path{"lessThan", "greaterThanOrEqual", "isInRange", "offset", "durationSince", "decimal", "toDate"}

func VerifC01_MatrixBinary() {
	vrt.Theory("int")
	genDigitPayloads = true
	g := genMkEnv()
	op := vrt.Choice("op", opBinaryCount+len(c01ExtBinary))
	l, _ := genLeaf("l", c01LeafSet())
	r, _ := genLeaf("r", c01LeafSet())
	if op < opBinaryCount {
		c01Compare(genBinary(op, l, r), g)
		return
	}
	c01Compare(ast.ExtensionCall(c01ExtBinary[op-opBinaryCount], l, r), g)
}

// Depth 2 for the operators whose operand is itself an operator result and for
// short-circuit behaviour (an unevaluated operand's error or ill-typedness is invisible).
func VerifC01_MatrixNested() {
	vrt.Theory("int")
	genDigitPayloads = true
	g := genMkEnv()
	parents := []int{opAnd, opOr, opEq, opAdd}
	children := []int{opAnd, opOr, opAdd, opLt}
	leaves := []int{leafLong, leafBool, leafOverflow}
	if vrt.Thorough() {
		parents = []int{opAnd, opOr, opEq, opLt, opAdd, opContains, opIn}
		children = []int{opAnd, opOr, opAdd, opLt, opEq, opMul}
		leaves = []int{leafLong, leafBool, leafOverflow, leafTypeErr, leafEntity, leafSet}
	}
	p := parents[vrt.Choice("parent", len(parents))]
	c := children[vrt.Choice("child", len(children))]
	a, _ := genLeaf("a", leaves)
	b, _ := genLeaf("b", leaves)
	x, _ := genLeaf("x", leaves)
	child := genBinary(c, a, b)
	var n ast.Node
	nshapes := 2
	if vrt.Thorough() {
		nshapes = 4
	}
	switch []int{0, 3, 1, 2}[vrt.Choice("shape", nshapes)] {
	case 0:
		n = genBinary(p, child, x)
	case 1:
		n = genBinary(p, x, child)
	case 2:
		n = ast.IfThenElse(child, x, a)
	case 3:
		n = ast.IfThenElse(x, child, b)
	}
	c01Compare(n, g)
}

// like: the matcher against the textbook definition over symbolic subject and
// pattern bytes (pattern shape and lengths are selectors).
func VerifC01_Like() {
	maxS := 3
	if vrt.Thorough() {
		maxS = 4
	}
	vrt.Bound("like-subject-bytes", maxS)
	ns := vrt.Choice("subject-len", maxS+1)
	subj := vrt.Bytes("subject", ns)
	// pattern: up to 4 elements, each a wildcard or one symbolic literal byte
	np := 1 + vrt.Choice("pattern-len", 4)
	var comps []any
	var flat []any
	for i := 0; i < np; i++ {
		if vrt.Choice("star", 2) == 1 {
			comps = append(comps, types.Wildcard{})
			flat = append(flat, types.Wildcard{})
		} else {
			c := vrt.Byte("lit")
			comps = append(comps, string([]byte{c}))
			flat = append(flat, c)
		}
	}
	pat := types.NewPattern(comps...)
	got := pat.Match(types.String(subj))
	want := specLike(string(subj), flat)
	if got {
		vrt.Cover("C01.like.match")
	} else {
		vrt.Cover("C01.like.nomatch")
	}
	vrt.Assert("C01.like.textbook", got == want)
}
