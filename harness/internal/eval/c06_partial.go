//go:build verif

package eval

import (
	"github.com/cedar-policy/cedar-go/internal/vrt"
	"github.com/cedar-policy/cedar-go/types"
	"github.com/cedar-policy/cedar-go/x/exp/ast"
)

// C06: partial evaluation is sound for every completion of the unknowns.
// The partial environment marks parts as Variable(...); the completion (entity
// selector, symbolic Long payloads) is symbolic, so "the original is not
// satisfied under ANY completion" is exactly an unsat query.

type c06World struct {
	partial  Env
	complete Env
	unknownP, unknownR     bool // principal / resource unknown
	unkK, unkRA, unkS      bool // context.k, context.r.a, element of context.s unknown
	unkB, unkRF            bool // Boolean unknowns: context.b, context.r.f
	ignoreP, ignoreK       bool
}

var c06Universe = []types.EntityUID{genE, genP, genX}

func c06Store(attr int64) types.EntityMap {
	return types.EntityMap{
		genE: types.Entity{UID: genE, Parents: types.NewEntityUIDSet(genP),
			Attributes: types.NewRecord(types.RecordMap{"a": types.Long(attr)})},
		genP: types.Entity{UID: genP},
	}
}

// c06Mk builds the partial and the completed environment.  mode selects which
// parts are unknown (bit mask) so that every placement is one path.
func c06Mk(mask int, ignoreMask int) c06World { return c06MkSel(mask, ignoreMask, false) }

func c06MkSel(mask int, ignoreMask int, scopeHarness bool) c06World {
	w := c06World{unknownP: mask&1 != 0, unknownR: mask&2 != 0, unkK: mask&4 != 0, unkRA: mask&8 != 0, unkS: mask&16 != 0,
		ignoreP: ignoreMask&1 != 0, ignoreK: ignoreMask&2 != 0, unkB: mask&32 != 0, unkRF: mask&64 != 0}
	attr := vrt.Int64("e.a")
	store := c06Store(attr)
	// completion values
	pSel, rSel := 0, 1
	if scopeHarness {
		pSel = vrt.Choice("principal", len(c06Universe))
		rSel = vrt.Choice("resource", len(c06Universe))
	} else {
		pSel = []int{0, 2}[vrt.Choice("principal", 2)]
	}
	k := vrt.Int64("context.k")
	ra := vrt.Int64("context.r.a")
	s0 := vrt.Int64("context.s[0]")
	b := vrt.Bool("context.b")
	rf := vrt.Bool("context.r.f")
	var bv, rfv types.Value = types.Boolean(b), types.Boolean(rf)
	mkCtx := func(kv, rav, s0v types.Value) types.Record {
		return types.NewRecord(types.RecordMap{
			"k": kv, "b": bv,
			"r": types.NewRecord(types.RecordMap{"a": rav, "f": rfv}),
			"s": types.NewSet(s0v, types.Long(7)),
		})
	}
	w.complete = Env{Entities: store, Principal: c06Universe[pSel], Action: types.NewEntityUID("Action", "act"), Resource: c06Universe[rSel],
		Context: mkCtx(types.Long(k), types.Long(ra), types.Long(s0))}
	var pv, rv types.Value = c06Universe[pSel], c06Universe[rSel]
	var kv, rav, s0v types.Value = types.Long(k), types.Long(ra), types.Long(s0)
	if w.unknownP {
		pv = Variable("principal")
	}
	if w.ignoreP {
		pv = Ignore()
	}
	if w.unknownR {
		rv = Variable("resource")
	}
	if w.unkK {
		kv = Variable("k")
	}
	if w.ignoreK {
		kv = Ignore()
	}
	if w.unkRA {
		rav = Variable("ra")
	}
	if w.unkS {
		s0v = Variable("s0")
	}
	if w.unkB {
		bv = Variable("b")
	}
	if w.unkRF {
		rfv = Variable("rf")
	}
	w.partial = Env{Entities: store, Principal: pv, Action: types.NewEntityUID("Action", "act"), Resource: rv, Context: mkCtx(kv, rav, s0v)}
	return w
}

func c06Satisfied(p *ast.Policy, env Env) bool {
	be := BoolEvaler{eval: ToEval(PolicyToNode(p).AsIsNode())}
	v, err := be.Eval(env)
	return err == nil && bool(v)
}

func c06Check(p *ast.Policy, w c06World) {
	res, keep := PartialPolicy(w.partial, p)
	orig := c06Satisfied(p, w.complete)
	if keep {
		vrt.Cover("C06.kept")
		got := c06Satisfied(res, w.complete)
		vrt.Assert("C06.kept.residual-equivalent", got == orig)
	} else {
		vrt.Cover("C06.dropped")
		vrt.Assert("C06.dropped.original-unsatisfied-for-every-completion", !orig)
	}
}

func c06Policy(cond ast.Node, unless bool) *ast.Policy {
	var ct ast.Condition = ast.ConditionWhen
	if unless {
		ct = ast.ConditionUnless
	}
	return &ast.Policy{Effect: ast.EffectPermit, Principal: ast.ScopeTypeAll{}, Action: ast.ScopeTypeAll{}, Resource: ast.ScopeTypeAll{},
		Conditions: []ast.ConditionType{{Condition: ct, Body: cond.AsIsNode()}}}
}

// Scope forms with unknown / known principal and resource.
func VerifC06_ScopeSound() {
	mask := vrt.Choice("unknown-mask", 4) // principal, resource
	w := c06MkSel(mask, 0, true)
	p := &ast.Policy{Effect: ast.EffectPermit, Principal: ast.ScopeTypeAll{}, Action: ast.ScopeTypeAll{}, Resource: ast.ScopeTypeAll{}}
	switch vrt.Choice("principal-scope", 5) {
	case 1:
		p.Principal = ast.ScopeTypeEq{Entity: genE}
	case 2:
		p.Principal = ast.ScopeTypeIn{Entity: genP}
	case 3:
		p.Principal = ast.ScopeTypeIs{Type: "T"}
	case 4:
		p.Principal = ast.ScopeTypeIsIn{Type: "T", Entity: genP}
	}
	switch vrt.Choice("resource-scope", 3) {
	case 1:
		p.Resource = ast.ScopeTypeIn{Entity: genP}
	case 2:
		p.Resource = ast.ScopeTypeEq{Entity: genX}
	}
	if vrt.Choice("with-condition", 2) == 1 {
		p.Conditions = []ast.ConditionType{{Condition: ast.ConditionWhen, Body: ast.Principal().Has("a").AsIsNode()}}
	}
	c06Check(p, w)
}

var c06Leaves = []int{leafLong, leafBool, leafOverflow, leafTypeErr, leafCtxK, leafCtxB, leafPrincipal, leafCtxRec, leafCtxS, leafCtx}
var c06LeavesQuick = []int{leafLong, leafBool, leafTypeErr, leafCtxK, leafCtxB, leafPrincipal, leafCtxRec}

func c06LeafSet() []int {
	if vrt.Thorough() {
		return c06Leaves
	}
	return c06LeavesQuick
}

func c06Mask() int {
	// which parts are unknown: principal(1) k(4) r.a(8) s0(16); at most two unknowns
	// Boolean unknowns: b(32), r.f(64) - the operands of && || if that can be satisfied
	masks := []int{0, 1, 4, 8, 16, 32, 64, 1 | 4, 4 | 8, 8 | 16, 1 | 8, 32 | 64, 4 | 32}
	if !vrt.Thorough() {
		masks = []int{1, 4, 8, 32, 4 | 8}
	}
	return masks[vrt.Choice("unknown-mask", len(masks))]
}

func VerifC06_ConditionUnary() {
	w := c06Mk(c06Mask(), 0)
	op := vrt.Choice("op", uUnaryCount)
	x, _ := genLeaf("x", c06LeafSet())
	c06Check(c06Policy(genUnary(op, x), vrt.Choice("unless", 2) == 1), w)
}

func VerifC06_ConditionBinary() {
	w := c06Mk(c06Mask(), 0)
	ops := []int{opAnd, opOr, opEq, opNe, opLt, opAdd, opContains, opIn}
	if vrt.Thorough() {
		ops = nil
		for i := 0; i < opBinaryCount; i++ {
			ops = append(ops, i)
		}
	}
	op := ops[vrt.Choice("op", len(ops))]
	l, _ := genLeaf("l", c06LeafSet())
	r, _ := genLeaf("r", c06LeafSet())
	c06Check(c06Policy(genBinary(op, l, r), false), w)
}

// Unknowns nested inside composite context values: whole-record and whole-set
// comparisons, contains on a set with an unknown member.
func VerifC06_NestedUnknown() {
	mask := []int{8, 16, 8 | 16}[vrt.Choice("unknown-mask", 3)]
	w := c06Mk(mask, 0)
	c := vrt.Int64("const")
	var n ast.Node
	switch vrt.Choice("form", 6) {
	case 0:
		n = ast.Context().Access("r").Equal(ast.Record(ast.Pairs{{Key: "a", Value: ast.Long(c)}}))
	case 1:
		n = ast.Context().Access("s").Contains(ast.Long(c))
	case 2:
		n = ast.Context().Access("s").Equal(ast.Set(ast.Long(c), ast.Long(7)))
	case 3:
		n = ast.Context().Access("r").Access("a").LessThan(ast.Long(c))
	case 4:
		n = ast.Context().Access("s").ContainsAny(ast.Set(ast.Long(c)))
	case 5:
		n = ast.Context().Access("r").Has("a")
	}
	c06Check(c06Policy(n, false), w)
}

// Ignored parts: a permit policy is kept and its residual is satisfied whenever
// the original is satisfied for the witness value of the ignored part.
func VerifC06_IgnorePermit() {
	im := 1 + vrt.Choice("ignore-mask", 3)
	w := c06Mk(0, im)
	var n ast.Node
	switch vrt.Choice("form", 5) {
	case 0:
		n = ast.Principal().Equal(ast.Value(genE))
	case 1:
		n = ast.Context().Access("k").LessThan(ast.Long(vrt.Int64("const")))
	case 2:
		n = ast.Context().Access("b").And(ast.Context().Access("k").Equal(ast.Long(1)))
	case 3:
		n = ast.Principal().In(ast.Value(genP)).Or(ast.Context().Access("b"))
	case 4:
		n = ast.Context().Has("k")
	}
	p := c06Policy(n, false)
	if vrt.Choice("scoped", 2) == 1 {
		p.Principal = ast.ScopeTypeEq{Entity: genE}
	}
	res, keep := PartialPolicy(w.partial, p)
	orig := c06Satisfied(p, w.complete)
	vrt.Cover("C06.ignore.checked")
	// the completion is the witness value of the ignored part: if the original is
	// satisfied for it, the permit must be kept and its residual satisfied.
	if orig {
		vrt.Cover("C06.ignore.witness-satisfied")
		vrt.Assert("C06.ignore.permit-kept", keep)
		vrt.Assert("C06.ignore.widens", keep && c06Satisfied(res, w.complete))
	}
}


// Boolean unknowns as operands of the lazy connectives: `u && x`, `x || u`,
// `if u then .. else ..`, with the unknown reached directly (context.b) or through
// an attribute access on a record that holds it (context.r.f).
func VerifC06_BooleanUnknown() {
	mask := []int{32, 64, 32 | 64, 32 | 4}[vrt.Choice("unknown-mask", 4)]
	w := c06Mk(mask, 0)
	c := vrt.Int64("const")
	u1, u2 := ast.Context().Access("b"), ast.Context().Access("r").Access("f")
	known := ast.Context().Access("k").LessThan(ast.Long(c))
	var n ast.Node
	switch vrt.Choice("form", 13) {
	case 10: // the whole clause body is the unknown (when / unless must keep their polarity)
		n = u1
	case 11:
		n = u2
	case 12:
		n = ast.IfThenElse(ast.True(), u1, ast.False())
	case 0:
		n = u1.And(known)
	case 1:
		n = known.And(u1)
	case 2:
		n = u2.Or(known)
	case 3:
		n = known.Or(u2)
	case 4:
		n = ast.IfThenElse(u1, known, ast.Not(known))
	case 5:
		n = ast.IfThenElse(known, u2, u1)
	case 6:
		n = u1.And(u2)
	case 7:
		n = ast.Not(u2).Or(u1.And(known))
	case 8:
		n = ast.IfThenElse(u2, u1, ast.False()).Equal(ast.True())
	case 9:
		n = u2.And(ast.Context().Access("r").Has("f"))
	}
	c06Check(c06Policy(n, vrt.Choice("unless", 2) == 1), w)
}
