//go:build verif

package eval

import (
	"github.com/cedar-policy/cedar-go/internal/vrt"
	"github.com/cedar-policy/cedar-go/types"
	"github.com/cedar-policy/cedar-go/x/exp/ast"
)

// Reference evaluator for the C01 oracle, written from the Cedar language
// reference (DESIGN.md Appendix E), deliberately not sharing code with
// evalers.go: results are (value | error class).  Error classes: "type",
// "overflow", "attr", "tag", "entity", "ext", "arity", "unknown-fn".
// Sub-expressions are evaluated left to right and the first error wins.

type specRes struct {
	v   types.Value
	err string
}

func specErr(c string) specRes       { return specRes{err: c} }
func specVal(v types.Value) specRes  { return specRes{v: v} }
func specBool(b bool) specRes        { return specRes{v: types.Boolean(b)} }

// specEqual is structural equality by kind (sets as sets, records by key).
func specEqual(a, b types.Value) bool {
	switch x := a.(type) {
	case types.Long:
		y, ok := b.(types.Long)
		return ok && int64(x) == int64(y)
	case types.Boolean:
		y, ok := b.(types.Boolean)
		return ok && bool(x) == bool(y)
	case types.String:
		y, ok := b.(types.String)
		return ok && string(x) == string(y)
	case types.EntityUID:
		y, ok := b.(types.EntityUID)
		return ok && x.Type == y.Type && x.ID == y.ID
	case types.Decimal:
		y, ok := b.(types.Decimal)
		return ok && x.Compare(y) == 0
	case types.Datetime:
		y, ok := b.(types.Datetime)
		return ok && x.Milliseconds() == y.Milliseconds()
	case types.Duration:
		y, ok := b.(types.Duration)
		return ok && x.ToMilliseconds() == y.ToMilliseconds()
	case types.IPAddr:
		y, ok := b.(types.IPAddr)
		return ok && x == y
	case types.Set:
		y, ok := b.(types.Set)
		if !ok {
			return false
		}
		return specSubset(x, y) && specSubset(y, x)
	case types.Record:
		y, ok := b.(types.Record)
		if !ok || x.Len() != y.Len() {
			return false
		}
		for k, v := range x.All() {
			w, ok := y.Get(k)
			if !ok || !specEqual(v, w) {
				return false
			}
		}
		return true
	}
	return false
}

func specMember(s types.Set, v types.Value) bool {
	for e := range s.All() {
		if specEqual(e, v) {
			return true
		}
	}
	return false
}

func specSubset(a, b types.Set) bool {
	for e := range a.All() {
		if !specMember(b, e) {
			return false
		}
	}
	return true
}

// specReach: reflexive-transitive reachability through parents of present entities.
func specReach(env Env, from, to types.EntityUID) bool {
	seen := map[types.EntityUID]bool{}
	var walk func(u types.EntityUID) bool
	walk = func(u types.EntityUID) bool {
		if u == to {
			return true
		}
		if seen[u] {
			return false
		}
		seen[u] = true
		e, ok := env.Entities.Get(u)
		if !ok {
			return false
		}
		for p := range e.Parents.All() {
			if walk(p) {
				return true
			}
		}
		return false
	}
	return walk(from)
}

// specLike: the textbook matcher over pattern elements (byte | wildcard).
func specLike(s string, pat []any) bool {
	if len(pat) == 0 {
		return len(s) == 0
	}
	if _, star := pat[0].(types.Wildcard); star {
		for i := 0; i <= len(s); i++ {
			if specLike(s[i:], pat[1:]) {
				return true
			}
		}
		return false
	}
	return len(s) > 0 && s[0] == pat[0].(byte) && specLike(s[1:], pat[1:])
}

type specFn struct {
	args   int
	method bool
}

var specFns = map[types.Path]specFn{
	"ip": {1, false}, "decimal": {1, false}, "datetime": {1, false}, "duration": {1, false},
	"lessThan": {2, true}, "lessThanOrEqual": {2, true}, "greaterThan": {2, true}, "greaterThanOrEqual": {2, true},
	"isIpv4": {1, true}, "isIpv6": {1, true}, "isLoopback": {1, true}, "isMulticast": {1, true}, "isInRange": {2, true},
	"toDate": {1, true}, "toTime": {1, true}, "toDays": {1, true}, "toHours": {1, true}, "toMinutes": {1, true}, "toSeconds": {1, true}, "toMilliseconds": {1, true},
	"offset": {2, true}, "durationSince": {2, true},
}

func specEval(n ast.IsNode, env Env) specRes {
	bin := func(b ast.BinaryNode) (specRes, specRes, bool) {
		l := specEval(b.Left, env)
		if l.err != "" {
			return l, specRes{}, false
		}
		r := specEval(b.Right, env)
		if r.err != "" {
			return r, specRes{}, false
		}
		return l, r, true
	}
	longs := func(b ast.BinaryNode) (int64, int64, specRes, bool) {
		l, r, ok := bin(b)
		if !ok {
			return 0, 0, l, false
		}
		x, ok1 := l.v.(types.Long)
		y, ok2 := r.v.(types.Long)
		if !ok1 || !ok2 {
			return 0, 0, specErr("type"), false
		}
		return int64(x), int64(y), specRes{}, true
	}
	cmp := func(b ast.BinaryNode, f func(x, y int64) bool) specRes {
		l, r, ok := bin(b)
		if !ok {
			return l
		}
		switch x := l.v.(type) {
		case types.Long:
			if y, ok := r.v.(types.Long); ok {
				return specBool(f(int64(x), int64(y)))
			}
		case types.Datetime:
			if y, ok := r.v.(types.Datetime); ok {
				return specBool(f(x.Milliseconds(), y.Milliseconds()))
			}
		case types.Duration:
			if y, ok := r.v.(types.Duration); ok {
				return specBool(f(x.ToMilliseconds(), y.ToMilliseconds()))
			}
		}
		return specErr("type")
	}
	switch v := n.(type) {
	case ast.NodeValue:
		return specVal(v.Value)
	case ast.NodeTypeVariable:
		switch v.Name {
		case "principal":
			return specVal(env.Principal)
		case "action":
			return specVal(env.Action)
		case "resource":
			return specVal(env.Resource)
		}
		return specVal(env.Context)
	case ast.NodeTypeAnd:
		l := specEval(v.Left, env)
		if l.err != "" {
			return l
		}
		lb, ok := l.v.(types.Boolean)
		if !ok {
			return specErr("type")
		}
		if !lb {
			return specBool(false)
		}
		r := specEval(v.Right, env)
		if r.err != "" {
			return r
		}
		if _, ok := r.v.(types.Boolean); !ok {
			return specErr("type")
		}
		return r
	case ast.NodeTypeOr:
		l := specEval(v.Left, env)
		if l.err != "" {
			return l
		}
		lb, ok := l.v.(types.Boolean)
		if !ok {
			return specErr("type")
		}
		if lb {
			return specBool(true)
		}
		r := specEval(v.Right, env)
		if r.err != "" {
			return r
		}
		if _, ok := r.v.(types.Boolean); !ok {
			return specErr("type")
		}
		return r
	case ast.NodeTypeNot:
		a := specEval(v.Arg, env)
		if a.err != "" {
			return a
		}
		b, ok := a.v.(types.Boolean)
		if !ok {
			return specErr("type")
		}
		return specBool(!bool(b))
	case ast.NodeTypeIfThenElse:
		c := specEval(v.If, env)
		if c.err != "" {
			return c
		}
		b, ok := c.v.(types.Boolean)
		if !ok {
			return specErr("type")
		}
		if b {
			return specEval(v.Then, env)
		}
		return specEval(v.Else, env)
	case ast.NodeTypeEquals:
		l, r, ok := bin(v.BinaryNode)
		if !ok {
			return l
		}
		return specBool(specEqual(l.v, r.v))
	case ast.NodeTypeNotEquals:
		l, r, ok := bin(v.BinaryNode)
		if !ok {
			return l
		}
		return specBool(!specEqual(l.v, r.v))
	case ast.NodeTypeLessThan:
		return cmp(v.BinaryNode, func(x, y int64) bool { return x < y })
	case ast.NodeTypeLessThanOrEqual:
		return cmp(v.BinaryNode, func(x, y int64) bool { return x <= y })
	case ast.NodeTypeGreaterThan:
		return cmp(v.BinaryNode, func(x, y int64) bool { return x > y })
	case ast.NodeTypeGreaterThanOrEqual:
		return cmp(v.BinaryNode, func(x, y int64) bool { return x >= y })
	case ast.NodeTypeAdd:
		x, y, e, ok := longs(v.BinaryNode)
		if !ok {
			return e
		}
		if !vrt.ConcretizeBool(vrt.AddFits(x, y)) {
			return specErr("overflow")
		}
		return specVal(types.Long(x + y))
	case ast.NodeTypeSub:
		x, y, e, ok := longs(v.BinaryNode)
		if !ok {
			return e
		}
		if !vrt.ConcretizeBool(vrt.SubFits(x, y)) {
			return specErr("overflow")
		}
		return specVal(types.Long(x - y))
	case ast.NodeTypeMult:
		x, y, e, ok := longs(v.BinaryNode)
		if !ok {
			return e
		}
		if !vrt.ConcretizeBool(vrt.MulFits(x, y)) {
			return specErr("overflow")
		}
		return specVal(types.Long(x * y))
	case ast.NodeTypeNegate:
		a := specEval(v.Arg, env)
		if a.err != "" {
			return a
		}
		x, ok := a.v.(types.Long)
		if !ok {
			return specErr("type")
		}
		if int64(x) == -9223372036854775808 {
			return specErr("overflow")
		}
		return specVal(types.Long(-int64(x)))
	case ast.NodeTypeIn:
		l, r, ok := bin(v.BinaryNode)
		if !ok {
			return l
		}
		a, ok := l.v.(types.EntityUID)
		if !ok {
			return specErr("type")
		}
		switch t := r.v.(type) {
		case types.EntityUID:
			return specBool(specReach(env, a, t))
		case types.Set:
			any := false
			for e := range t.All() {
				u, ok := e.(types.EntityUID)
				if !ok {
					return specErr("type")
				}
				if specReach(env, a, u) {
					any = true
				}
			}
			return specBool(any)
		}
		return specErr("type")
	case ast.NodeTypeIs:
		a := specEval(v.Left, env)
		if a.err != "" {
			return a
		}
		u, ok := a.v.(types.EntityUID)
		if !ok {
			return specErr("type")
		}
		return specBool(u.Type == v.EntityType)
	case ast.NodeTypeIsIn:
		a := specEval(v.Left, env)
		if a.err != "" {
			return a
		}
		u, ok := a.v.(types.EntityUID)
		if !ok {
			return specErr("type")
		}
		if u.Type != v.EntityType {
			return specBool(false) // the right operand is not evaluated
		}
		return specEval(ast.NodeTypeIn{BinaryNode: ast.BinaryNode{Left: ast.NodeValue{Value: u}, Right: v.Entity}}, env)
	case ast.NodeTypeContains:
		l, r, ok := bin(v.BinaryNode)
		if !ok {
			return l
		}
		s, ok := l.v.(types.Set)
		if !ok {
			return specErr("type")
		}
		return specBool(specMember(s, r.v))
	case ast.NodeTypeContainsAll, ast.NodeTypeContainsAny:
		var b ast.BinaryNode
		all := false
		if x, ok := v.(ast.NodeTypeContainsAll); ok {
			b, all = x.BinaryNode, true
		} else {
			b = v.(ast.NodeTypeContainsAny).BinaryNode
		}
		l, r, ok := bin(b)
		if !ok {
			return l
		}
		s, ok1 := l.v.(types.Set)
		t, ok2 := r.v.(types.Set)
		if !ok1 || !ok2 {
			return specErr("type")
		}
		if all {
			return specBool(specSubset(t, s))
		}
		any := false
		for e := range t.All() {
			if specMember(s, e) {
				any = true
			}
		}
		return specBool(any)
	case ast.NodeTypeIsEmpty:
		a := specEval(v.Arg, env)
		if a.err != "" {
			return a
		}
		s, ok := a.v.(types.Set)
		if !ok {
			return specErr("type")
		}
		return specBool(s.Len() == 0)
	case ast.NodeTypeLike:
		a := specEval(v.Arg, env)
		if a.err != "" {
			return a
		}
		s, ok := a.v.(types.String)
		if !ok {
			return specErr("type")
		}
		return specBool(v.Value.Match(s)) // the matcher itself is checked by VerifC01_Like
	case ast.NodeTypeHas, ast.NodeTypeAccess:
		var arg ast.IsNode
		var key types.String
		has := false
		if x, ok := v.(ast.NodeTypeHas); ok {
			arg, key, has = x.Arg, x.Value, true
		} else {
			x := v.(ast.NodeTypeAccess)
			arg, key = x.Arg, x.Value
		}
		a := specEval(arg, env)
		if a.err != "" {
			return a
		}
		var rec types.Record
		switch t := a.v.(type) {
		case types.Record:
			rec = t
		case types.EntityUID:
			e, ok := env.Entities.Get(t)
			if !ok {
				if has {
					return specBool(false)
				}
				return specErr("entity")
			}
			rec = e.Attributes
		default:
			return specErr("type")
		}
		val, ok := rec.Get(key)
		if has {
			return specBool(ok)
		}
		if !ok {
			return specErr("attr")
		}
		return specVal(val)
	case ast.NodeTypeHasTag, ast.NodeTypeGetTag:
		var b ast.BinaryNode
		has := false
		if x, ok := v.(ast.NodeTypeHasTag); ok {
			b, has = x.BinaryNode, true
		} else {
			b = v.(ast.NodeTypeGetTag).BinaryNode
		}
		l, r, ok := bin(b)
		if !ok {
			return l
		}
		u, ok1 := l.v.(types.EntityUID)
		if !ok1 {
			return specErr("type")
		}
		k, ok2 := r.v.(types.String)
		if !ok2 {
			return specErr("type")
		}
		e, ok := env.Entities.Get(u)
		if !ok {
			if has {
				return specBool(false)
			}
			return specErr("entity")
		}
		val, ok := e.Tags.Get(k)
		if has {
			return specBool(ok)
		}
		if !ok {
			return specErr("tag")
		}
		return specVal(val)
	case ast.NodeTypeSet:
		vals := make([]types.Value, 0, len(v.Elements))
		for _, e := range v.Elements {
			r := specEval(e, env)
			if r.err != "" {
				return r
			}
			vals = append(vals, r.v)
		}
		return specVal(types.NewSet(vals...))
	case ast.NodeTypeRecord:
		m := types.RecordMap{}
		for _, e := range v.Elements {
			r := specEval(e.Value, env)
			if r.err != "" {
				return r
			}
			m[e.Key] = r.v
		}
		return specVal(types.NewRecord(m))
	case ast.NodeTypeExtensionCall:
		return specExt(v, env)
	}
	panic("specEval: unknown node")
}

const specDayMs = int64(86400000)

func specExt(v ast.NodeTypeExtensionCall, env Env) specRes {
	fn, known := specFns[v.Name]
	if !known {
		return specErr("unknown-fn")
	}
	if fn.args != len(v.Args) {
		return specErr("arity")
	}
	args := make([]types.Value, len(v.Args))
	for i, a := range v.Args {
		r := specEval(a, env)
		if r.err != "" {
			return r
		}
		args[i] = r.v
	}
	str := func(i int) (string, bool) {
		s, ok := args[i].(types.String)
		return string(s), ok
	}
	switch v.Name {
	case "decimal":
		s, ok := str(0)
		if !ok {
			return specErr("type")
		}
		d, err := types.ParseDecimal(s)
		if err != nil {
			return specErr("ext")
		}
		return specVal(d)
	case "ip":
		s, ok := str(0)
		if !ok {
			return specErr("type")
		}
		d, err := types.ParseIPAddr(s)
		if err != nil {
			return specErr("ext")
		}
		return specVal(d)
	case "datetime":
		s, ok := str(0)
		if !ok {
			return specErr("type")
		}
		d, err := types.ParseDatetime(s)
		if err != nil {
			return specErr("ext")
		}
		return specVal(d)
	case "duration":
		s, ok := str(0)
		if !ok {
			return specErr("type")
		}
		d, err := types.ParseDuration(s)
		if err != nil {
			return specErr("ext")
		}
		return specVal(d)
	case "lessThan", "lessThanOrEqual", "greaterThan", "greaterThanOrEqual":
		a, ok1 := args[0].(types.Decimal)
		b, ok2 := args[1].(types.Decimal)
		if !ok1 || !ok2 {
			return specErr("type")
		}
		c := a.Compare(b)
		switch v.Name {
		case "lessThan":
			return specBool(c < 0)
		case "lessThanOrEqual":
			return specBool(c <= 0)
		case "greaterThan":
			return specBool(c > 0)
		}
		return specBool(c >= 0)
	case "isIpv4", "isIpv6", "isLoopback", "isMulticast":
		a, ok := args[0].(types.IPAddr)
		if !ok {
			return specErr("type")
		}
		switch v.Name {
		case "isIpv4":
			return specBool(a.IsIPv4())
		case "isIpv6":
			return specBool(a.IsIPv6())
		case "isLoopback":
			return specBool(a.IsLoopback())
		}
		return specBool(a.IsMulticast())
	case "isInRange":
		a, ok1 := args[0].(types.IPAddr)
		b, ok2 := args[1].(types.IPAddr)
		if !ok1 || !ok2 {
			return specErr("type")
		}
		return specBool(b.Contains(a))
	case "toDate", "toTime":
		d, ok := args[0].(types.Datetime)
		if !ok {
			return specErr("type")
		}
		ms := d.Milliseconds()
		rem := ms % specDayMs
		if rem < 0 {
			rem += specDayMs
		}
		if v.Name == "toTime" {
			return specVal(types.NewDurationFromMillis(rem))
		}
		if !vrt.ConcretizeBool(vrt.SubFits(ms, rem)) {
			return specErr("overflow")
		}
		return specVal(types.NewDatetimeFromMillis(ms - rem))
	case "toDays", "toHours", "toMinutes", "toSeconds", "toMilliseconds":
		d, ok := args[0].(types.Duration)
		if !ok {
			return specErr("type")
		}
		unit := map[types.Path]int64{"toDays": 86400000, "toHours": 3600000, "toMinutes": 60000, "toSeconds": 1000, "toMilliseconds": 1}[v.Name]
		return specVal(types.Long(d.ToMilliseconds() / unit))
	case "offset":
		t, ok1 := args[0].(types.Datetime)
		d, ok2 := args[1].(types.Duration)
		if !ok1 || !ok2 {
			return specErr("type")
		}
		if !vrt.ConcretizeBool(vrt.AddFits(t.Milliseconds(), d.ToMilliseconds())) {
			return specErr("overflow")
		}
		return specVal(types.NewDatetimeFromMillis(t.Milliseconds() + d.ToMilliseconds()))
	case "durationSince":
		a, ok1 := args[0].(types.Datetime)
		b, ok2 := args[1].(types.Datetime)
		if !ok1 || !ok2 {
			return specErr("type")
		}
		if !vrt.ConcretizeBool(vrt.SubFits(a.Milliseconds(), b.Milliseconds())) {
			return specErr("overflow")
		}
		return specVal(types.NewDurationFromMillis(a.Milliseconds() - b.Milliseconds()))
	}
	panic("specExt")
}
