//go:build verif

package eval

import (
	"net/netip"

	"github.com/cedar-policy/cedar-go/internal/vrt"
	"github.com/cedar-policy/cedar-go/types"
	"github.com/cedar-policy/cedar-go/x/exp/ast"
)

// C01 family 4: the ipaddr functions against an independent reference over raw
// address bytes.  An address is (family, 16 bytes of which 2-4 are solver
// variables, prefix length from a representative list); the reference is the
// Cedar specification's definition on bits: isInRange = same family, the range's
// prefix is not longer and the addresses agree on the range's prefix bits (an
// IPv4-mapped IPv6 address is IPv6); isLoopback = inside 127.0.0.0/8 or equal to
// ::1; isMulticast = inside 224.0.0.0/4 or ff00::/8.

type c01IP struct {
	v4   bool
	b    [16]byte // v4: b[12:16]
	bits int
}

func c01MkIP(label string) c01IP {
	var ip c01IP
	fam := vrt.Choice(label+".family", 3) // v4, v6, v4-mapped v6
	ip.v4 = fam == 0
	sym := vrt.Bytes(label+".bytes", 4)
	switch fam {
	case 0:
		copy(ip.b[12:], sym)
		ip.bits = []int{0, 4, 8, 9, 24, 31, 32}[vrt.Choice(label+".prefix", 7)]
	case 1:
		// a general IPv6 address: first two and last two bytes symbolic, zeros between
		ip.b[0], ip.b[1], ip.b[14], ip.b[15] = sym[0], sym[1], sym[2], sym[3]
		ip.bits = []int{0, 8, 16, 64, 120, 127, 128}[vrt.Choice(label+".prefix", 7)]
	case 2:
		ip.b[10], ip.b[11] = 0xff, 0xff
		copy(ip.b[12:], sym)
		ip.bits = []int{0, 96, 104, 120, 128}[vrt.Choice(label+".prefix", 5)]
	}
	return ip
}

func (ip c01IP) value() types.IPAddr {
	if ip.v4 {
		return types.IPAddr(netip.PrefixFrom(netip.AddrFrom4([4]byte{ip.b[12], ip.b[13], ip.b[14], ip.b[15]}), ip.bits))
	}
	return types.IPAddr(netip.PrefixFrom(netip.AddrFrom16(ip.b), ip.bits))
}

// samePrefixBits: a and b agree on their first n bits (of the 16-byte form; v4
// addresses are compared on b[12:]).
func c01SamePrefixBits(a, b c01IP, n int, v4 bool) bool {
	off := 0
	if v4 {
		off = 12
	}
	eq := true
	for i := 0; i*8 < n; i++ {
		x, y := a.b[off+i], b.b[off+i]
		if rem := n - i*8; rem < 8 {
			m := byte(0xff << uint(8-rem))
			x, y = x&m, y&m
		}
		eq = vrt.And(eq, x == y)
	}
	return eq
}

func c01InRange(a, r c01IP) bool {
	if a.v4 != r.v4 || r.bits > a.bits {
		return false
	}
	return c01SamePrefixBits(a, r, r.bits, a.v4)
}

func VerifC01_IPFunctions() {
	a, r := c01MkIP("a"), c01MkIP("r")
	env := Env{}
	// isInRange
	v, err := evalNode(ast.ExtensionCall("isInRange", ast.Value(a.value()), ast.Value(r.value())), env)
	vrt.Cover("C01.ip.checked")
	vrt.Assert("C01.ip.isInRange.noerr", err == nil)
	vrt.Assert("C01.ip.isInRange", err == nil && v == types.Boolean(c01InRange(a, r)))
	// family tests
	v4, e4 := evalNode(ast.ExtensionCall("isIpv4", ast.Value(a.value())), env)
	v6, e6 := evalNode(ast.ExtensionCall("isIpv6", ast.Value(a.value())), env)
	vrt.Assert("C01.ip.isIpv4", e4 == nil && v4 == types.Boolean(a.v4))
	vrt.Assert("C01.ip.isIpv6", e6 == nil && v6 == types.Boolean(!a.v4))
	// loopback / multicast: the whole range lies inside the well-known net
	lo4 := c01IP{v4: true, bits: 8}
	lo4.b[12] = 127
	lo6 := c01IP{bits: 128}
	lo6.b[15] = 1
	mc4 := c01IP{v4: true, bits: 4}
	mc4.b[12] = 224
	mc6 := c01IP{bits: 8}
	mc6.b[0] = 0xff
	vl, el := evalNode(ast.ExtensionCall("isLoopback", ast.Value(a.value())), env)
	vm, em := evalNode(ast.ExtensionCall("isMulticast", ast.Value(a.value())), env)
	// Cedar (Rust) semantics: loopback is tested on the network address of the range
	// (prefix bits of the address, host bits cleared); multicast is "in range of" the
	// multicast net.
	wantLoop := false
	if a.v4 {
		wantLoop = vrt.And(a.bits >= 8, c01SamePrefixBits(a, lo4, 8, true))
		if a.bits < 8 {
			// the masked address has its first byte cut to a.bits bits: 127 survives no mask shorter than 8
			wantLoop = false
		}
	} else {
		wantLoop = vrt.And(a.bits == 128, c01SamePrefixBits(a, lo6, 128, false))
		if a.bits < 128 {
			// network address of a shorter prefix is ::1 only if the bits beyond the prefix are
			// cleared, which removes the final 1
			wantLoop = false
		}
	}
	vrt.Assert("C01.ip.isLoopback", el == nil && vl == types.Boolean(wantLoop))
	wantMc := c01InRange(a, mc4) || c01InRange(a, mc6)
	vrt.Assert("C01.ip.isMulticast", em == nil && vm == types.Boolean(wantMc))
}
