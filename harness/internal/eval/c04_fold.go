//go:build verif

package eval

import (
	"github.com/cedar-policy/cedar-go/internal/vrt"
	"github.com/cedar-policy/cedar-go/types"
	"github.com/cedar-policy/cedar-go/x/exp/ast"
)

// C04: the folded form that Authorize runs is satisfied / unsatisfied / erroring
// exactly when direct evaluation of the original tree is, for every environment.

var c04Leaves = []int{leafLong, leafBool, leafOverflow, leafTypeErr, leafCtxK, leafCtxB, leafEntity, leafAbsent, leafSet, leafRecord, leafString}
var c04LeavesQuick = []int{leafLong, leafBool, leafOverflow, leafTypeErr, leafCtxK, leafEntity, leafSet}

func c04LeafSet() []int {
	if vrt.Thorough() {
		return c04Leaves
	}
	return c04LeavesQuick
}

// c04Clauses: also vary the clause structure of the policy (set by the depth-1 harnesses).
var c04Clauses bool

func c04Compare(n ast.Node, g genEnv) {
	// expression level: fold(n) vs n
	folded := fold(n.AsIsNode())
	v1, e1 := ToEval(n.AsIsNode()).Eval(g.env)
	v2, e2 := ToEval(folded).Eval(g.env)
	if e1 != nil {
		vrt.Cover("C04.expr.error")
	} else {
		vrt.Cover("C04.expr.value")
	}
	if _, isVal := folded.(ast.NodeValue); isVal {
		vrt.Cover("C04.expr.folded-to-value")
	}
	vrt.Assert("C04.expr.same-outcome", sameOutcome(v1, e1, v2, e2))
	// policy level: Compile (what Authorize runs) vs direct evaluation of the original tree
	p := &ast.Policy{Effect: ast.EffectPermit, Principal: ast.ScopeTypeAll{}, Action: ast.ScopeTypeAll{}, Resource: ast.ScopeTypeAll{},
		Conditions: []ast.ConditionType{{Condition: ast.ConditionWhen, Body: n.AsIsNode()}}}
	// clause kinds and constant clauses around the condition (all foldable at compile time)
	if c04Clauses {
		switch vrt.Choice("clauses", 6) {
		case 1:
			p.Conditions[0].Condition = ast.ConditionUnless
		case 2:
			p.Conditions = append(p.Conditions, ast.ConditionType{Condition: ast.ConditionUnless, Body: ast.True().AsIsNode()})
		case 3:
			p.Conditions = append([]ast.ConditionType{{Condition: ast.ConditionUnless, Body: ast.Long(1).LessThan(ast.Long(2)).AsIsNode()}}, p.Conditions...)
		case 4:
			p.Conditions = append(p.Conditions, ast.ConditionType{Condition: ast.ConditionWhen, Body: ast.True().AsIsNode()}, ast.ConditionType{Condition: ast.ConditionUnless, Body: ast.False().AsIsNode()})
		case 5:
			p.Conditions = append([]ast.ConditionType{{Condition: ast.ConditionWhen, Body: ast.Long(2).LessThan(ast.Long(1)).AsIsNode()}}, p.Conditions...)
		}
	}
	vrt.Freeze(p)
	be := Compile(p)
	vrt.Assert("C04.no-write-to-input-ast", vrt.Writes() == 0)
	vrt.Unfreeze()
	b1, pe1 := be.Eval(g.env)
	direct := BoolEvaler{eval: ToEval(PolicyToNode(p).AsIsNode())}
	b2, pe2 := direct.Eval(g.env)
	vrt.Assert("C04.policy.same-error", (pe1 != nil) == (pe2 != nil))
	vrt.Assert("C04.policy.same-satisfied", b1 == b2)
}

func VerifC04_FoldUnary() {
	c04Clauses = true
	g := genMkEnv()
	op := vrt.Choice("op", uUnaryCount)
	x, _ := genLeaf("x", c04LeafSet())
	c04Compare(genUnary(op, x), g)
}

func VerifC04_FoldBinary() {
	g := genMkEnv()
	op := vrt.Choice("op", opBinaryCount)
	l, _ := genLeaf("l", c04LeafSet())
	r, _ := genLeaf("r", c04LeafSet())
	c04Compare(genBinary(op, l, r), g)
}

// Depth 2: the parent sees a child that is itself an operator result (folded
// value, unfoldable, or erroring constant expression).
func VerifC04_FoldNested() {
	g := genMkEnv()
	parents := []int{opAnd, opOr, opEq, opAdd}
	if vrt.Thorough() {
		parents = []int{opAnd, opOr, opEq, opNe, opAdd, opSub, opMul, opLt, opGe, opContains, opContainsAny, opIn}
	}
	childOps := []int{opAnd, opOr, opAdd, opLt}
	leaves := []int{leafLong, leafBool, leafOverflow, leafCtxK}
	if vrt.Thorough() {
		childOps = []int{opAnd, opOr, opAdd, opLt, opEq}
		leaves = []int{leafLong, leafBool, leafOverflow, leafCtxK, leafEntity}
	}
	pop := parents[vrt.Choice("parent", len(parents))]
	cop := childOps[vrt.Choice("child", len(childOps))]
	a, _ := genLeaf("a", leaves)
	b, _ := genLeaf("b", leaves)
	c, _ := genLeaf("c", leaves)
	child := genBinary(cop, a, b)
	var n ast.Node
	if vrt.Choice("side", 2) == 0 {
		n = genBinary(pop, child, c)
	} else {
		n = genBinary(pop, c, child)
	}
	c04Compare(n, g)
}

// Entity-dependent nodes must not be folded against the empty store: here the
// store gives genE the attribute, tag and parent, so folding would be visible.
func VerifC04_FoldEntityDependent() {
	c04Clauses = true
	g := genMkEnv()
	e := ast.Value(genE)
	var n ast.Node
	switch vrt.Choice("form", 7) {
	case 0:
		n = e.Has("a")
	case 1:
		n = e.Access("a").Equal(ast.Long(g.attr))
	case 2:
		n = e.HasTag(ast.String("t"))
	case 3:
		n = e.GetTag(ast.String("t")).Equal(ast.Long(g.attr))
	case 4:
		n = e.In(ast.Value(genP))
	case 5:
		n = e.IsIn(genUT, ast.Value(genP))
	case 6:
		n = e.In(ast.Set(ast.Value(genP)))
	}
	v, err := ToEval(fold(n.AsIsNode())).Eval(g.env)
	vrt.Cover("C04.entity-dependent")
	vrt.Assert("C04.entity-dependent.noerr", err == nil)
	vrt.Assert("C04.entity-dependent.true", v == types.Boolean(true))
	c04Compare(n, g)
}
