//go:build verif

package eval

import (
	"errors"

	"github.com/cedar-policy/cedar-go/internal/vrt"
	"github.com/cedar-policy/cedar-go/types"
	"github.com/cedar-policy/cedar-go/x/exp/ast"
)

// C01 family 1: checked arithmetic at full 64-bit width, through ToEval(...).Eval.
// Oracle: the exact mathematical result fits in int64 <=> value, else overflow error.

func evalNode(n ast.Node, env Env) (types.Value, error) {
	return ToEval(n.AsIsNode()).Eval(env)
}

func VerifC01_Add() {
	vrt.Theory("int")
	x, y := vrt.Int64("x"), vrt.Int64("y")
	v, err := evalNode(ast.Long(x).Add(ast.Long(y)), Env{})
	if vrt.ConcretizeBool(vrt.AddFits(x, y)) {
		vrt.Cover("C01.add.fits")
		vrt.Assert("C01.add.noerr", err == nil)
		l, ok := v.(types.Long)
		vrt.Assert("C01.add.type", ok)
		vrt.Assert("C01.add.value", int64(l) == x+y)
	} else {
		vrt.Cover("C01.add.overflow")
		vrt.Assert("C01.add.err", err != nil && errors.Is(err, errOverflow))
	}
}

func VerifC01_Sub() {
	vrt.Theory("int")
	x, y := vrt.Int64("x"), vrt.Int64("y")
	v, err := evalNode(ast.Long(x).Subtract(ast.Long(y)), Env{})
	if vrt.ConcretizeBool(vrt.SubFits(x, y)) {
		vrt.Cover("C01.sub.fits")
		vrt.Assert("C01.sub.noerr", err == nil)
		l, ok := v.(types.Long)
		vrt.Assert("C01.sub.type", ok)
		vrt.Assert("C01.sub.value", int64(l) == x-y)
	} else {
		vrt.Cover("C01.sub.overflow")
		vrt.Assert("C01.sub.err", err != nil && errors.Is(err, errOverflow))
	}
}

func VerifC01_Mul() {
	vrt.Theory("int")
	x, y := vrt.Int64("x"), vrt.Int64("y")
	v, err := evalNode(ast.Long(x).Multiply(ast.Long(y)), Env{})
	if vrt.ConcretizeBool(vrt.MulFits(x, y)) {
		vrt.Cover("C01.mul.fits")
		vrt.Assert("C01.mul.noerr", err == nil)
		l, ok := v.(types.Long)
		vrt.Assert("C01.mul.type", ok)
		vrt.Assert("C01.mul.value", int64(l) == x*y)
	} else {
		vrt.Cover("C01.mul.overflow")
		vrt.Assert("C01.mul.err", err != nil && errors.Is(err, errOverflow))
	}
}

func VerifC01_Neg() {
	vrt.Theory("int")
	x := vrt.Int64("x")
	v, err := evalNode(ast.Negate(ast.Long(x)), Env{})
	if x == -9223372036854775808 {
		vrt.Cover("C01.neg.overflow")
		vrt.Assert("C01.neg.err", err != nil && errors.Is(err, errOverflow))
	} else {
		vrt.Cover("C01.neg.fits")
		vrt.Assert("C01.neg.noerr", err == nil)
		l, ok := v.(types.Long)
		vrt.Assert("C01.neg.type", ok)
		vrt.Assert("C01.neg.value", int64(l) == -x)
	}
}
