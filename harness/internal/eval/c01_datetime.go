//go:build verif

package eval

import (
	"errors"

	"github.com/cedar-policy/cedar-go/internal/vrt"
	"github.com/cedar-policy/cedar-go/types"
	"github.com/cedar-policy/cedar-go/x/exp/ast"
)

// C01 family 2: datetime/duration kernels over all 2^64 millisecond values.
// Reference (Cedar spec / Lean / Rust): toDate = floor(ms / day) * day, error if
// that is not representable; toTime = ms - floor(ms/day)*day in [0, day);
// duration conversions truncate toward zero; offset/durationSince are checked.

const specDay = int64(86400000)

func dtMethod(ms int64, m string, args ...ast.Node) (types.Value, error) {
	return evalNode(ast.ExtensionCall(types.Path(m), append([]ast.Node{ast.Value(types.NewDatetimeFromMillis(ms))}, args...)...), Env{})
}

func durMethod(ms int64, m string) (types.Value, error) {
	return evalNode(ast.ExtensionCall(types.Path(m), ast.Value(types.NewDurationFromMillis(ms))), Env{})
}

func VerifC01_ToDate() {
	vrt.Theory("int")
	ms := vrt.Int64("ms")
	v, err := dtMethod(ms, "toDate")
	// MinInt64 = -(106751991167 days) - 25975808 ms, so floor(ms/day)*day is
	// representable iff ms >= -106751991167*day.
	const minDayFloor = -106751991167 * specDay
	if err != nil {
		// an error is only allowed when the floor is not representable
		vrt.Assert("C01.toDate.err-only-if-unrepresentable", ms < minDayFloor)
		return
	}
	d, ok := v.(types.Datetime)
	vrt.Assert("C01.toDate.type", ok)
	r := d.Milliseconds()
	if ms < 0 {
		vrt.Tag("negative")
	}
	vrt.Cover("C01.toDate.value")
	// characterisation of the floor: r <= ms < r + day, r multiple of day
	vrt.Assert("C01.toDate.le", r <= ms)
	vrt.Assert("C01.toDate.within-day", ms-r < specDay)
	vrt.Assert("C01.toDate.multiple", r%specDay == 0)
}

func VerifC01_ToTime() {
	vrt.Theory("int")
	ms := vrt.Int64("ms")
	v, err := dtMethod(ms, "toTime")
	vrt.Assert("C01.toTime.noerr", err == nil)
	d, ok := v.(types.Duration)
	vrt.Assert("C01.toTime.type", ok)
	r := d.ToMilliseconds()
	if ms < 0 {
		vrt.Tag("negative")
	}
	vrt.Cover("C01.toTime.value")
	vrt.Assert("C01.toTime.nonneg", r >= 0)
	vrt.Assert("C01.toTime.lt-day", r < specDay)
	// ms - r is a multiple of a day (computed without overflow: ms-r >= MinInt64 since r>=0 needs care)
	vrt.Assert("C01.toTime.congruent", (ms%specDay-r)%specDay == 0)
}

func VerifC01_DurationConv() {
	vrt.Theory("int")
	ms := vrt.Int64("ms")
	unit := []struct {
		m string
		d int64
	}{{"toMilliseconds", 1}, {"toSeconds", 1000}, {"toMinutes", 60000}, {"toHours", 3600000}, {"toDays", 86400000}}
	k := vrt.Choice("unit", len(unit))
	v, err := durMethod(ms, unit[k].m)
	vrt.Assert("C01.durconv.noerr", err == nil)
	l, ok := v.(types.Long)
	vrt.Assert("C01.durconv.type", ok)
	q := int64(l)
	d := unit[k].d
	vrt.Cover("C01.durconv.value")
	// truncation toward zero: q*d has the sign of ms (or is 0), |ms - q*d| < d
	rem := ms - q*d
	vrt.Assert("C01.durconv.rem-small", rem < d && rem > -d)
	vrt.Assert("C01.durconv.rem-sign", vrt.Or(rem == 0, (rem < 0) == (ms < 0)))
}

func VerifC01_Offset() {
	vrt.Theory("int")
	t, d := vrt.Int64("t"), vrt.Int64("d")
	v, err := dtMethod(t, "offset", ast.Value(types.NewDurationFromMillis(d)))
	if vrt.ConcretizeBool(vrt.AddFits(t, d)) {
		vrt.Cover("C01.offset.fits")
		vrt.Assert("C01.offset.noerr", err == nil)
		r, ok := v.(types.Datetime)
		vrt.Assert("C01.offset.type", ok)
		vrt.Assert("C01.offset.value", r.Milliseconds() == t+d)
	} else {
		vrt.Cover("C01.offset.overflow")
		vrt.Assert("C01.offset.err", err != nil && errors.Is(err, errOverflow))
	}
}

func VerifC01_DurationSince() {
	vrt.Theory("int")
	a, b := vrt.Int64("a"), vrt.Int64("b")
	v, err := dtMethod(a, "durationSince", ast.Value(types.NewDatetimeFromMillis(b)))
	if vrt.ConcretizeBool(vrt.SubFits(a, b)) {
		vrt.Cover("C01.durationSince.fits")
		vrt.Assert("C01.durationSince.noerr", err == nil)
		r, ok := v.(types.Duration)
		vrt.Assert("C01.durationSince.type", ok)
		vrt.Assert("C01.durationSince.value", r.ToMilliseconds() == a-b)
	} else {
		vrt.Cover("C01.durationSince.overflow")
		vrt.Assert("C01.durationSince.err", err != nil && errors.Is(err, errOverflow))
	}
}
