//go:build verif

package eval

import (
	"github.com/cedar-policy/cedar-go/internal/mapset"
	"github.com/cedar-policy/cedar-go/internal/vrt"
	"github.com/cedar-policy/cedar-go/types"
	"github.com/cedar-policy/cedar-go/x/exp/ast"
)

// C03: `in` is reflexive-transitive reachability through parents of entities
// present in the store.  The store is an EntityGetter over K fixed ids whose
// presence bits and K*K parent-edge bits are *symbolic*; it materialises an
// entity lazily (forking on its bits only when the traversal asks for it).
// The oracle is the K-step unrolled closure written as one Boolean term.

type c03Store struct {
	k       int
	ids     []types.EntityUID
	present []bool
	edge    [][]bool
	cache   map[int]*types.Entity
	gets    int
}

func c03New(k int) *c03Store {
	s := &c03Store{k: k, cache: map[int]*types.Entity{}}
	typs := []types.EntityType{"T", "T", "U", "T", "U"}
	for i := 0; i < k; i++ {
		s.ids = append(s.ids, types.NewEntityUID(typs[i], types.String("n"+string(rune('0'+i)))))
		s.present = append(s.present, vrt.Bool("present"))
	}
	for i := 0; i < k; i++ {
		row := make([]bool, k)
		for j := 0; j < k; j++ {
			row[j] = vrt.Bool("edge")
		}
		s.edge = append(s.edge, row)
	}
	return s
}

func (s *c03Store) Get(uid types.EntityUID) (types.Entity, bool) {
	s.gets++
	for i := range s.ids {
		if s.ids[i] == uid {
			if !s.present[i] {
				return types.Entity{}, false
			}
			if e := s.cache[i]; e != nil {
				return *e, true
			}
			var ps []types.EntityUID
			for j := 0; j < s.k; j++ {
				if s.edge[i][j] {
					ps = append(ps, s.ids[j])
				}
			}
			e := &types.Entity{UID: uid, Parents: types.NewEntityUIDSet(ps...)}
			s.cache[i] = e
			return *e, true
		}
	}
	return types.Entity{}, false
}

// reach returns the closure term R[a][b] (non-forking).
func (s *c03Store) reach(a, b int) bool {
	k := s.k
	r := make([]bool, k) // r[m]: m reachable from a
	for m := 0; m < k; m++ {
		r[m] = m == a
	}
	for step := 0; step < k; step++ {
		nr := make([]bool, k)
		for j := 0; j < k; j++ {
			v := r[j]
			for m := 0; m < k; m++ {
				v = vrt.Or(v, vrt.And(r[m], vrt.And(s.present[m], s.edge[m][j])))
			}
			nr[j] = v
		}
		r = nr
	}
	return r[b]
}

func c03K() int {
	k := 3
	if vrt.Thorough() {
		k = 4
	}
	vrt.Bound("nodes", k)
	return k
}

func VerifC03_InOne() {
	k := c03K()
	s := c03New(k)
	a, b := vrt.Choice("a", k), vrt.Choice("b", k)
	got := entityInOne(Env{Entities: s}, s.ids[a], s.ids[b])
	want := s.reach(a, b)
	if got {
		vrt.Cover("C03.inone.true")
	} else {
		vrt.Cover("C03.inone.false")
	}
	vrt.Assert("C03.inone.reachability", got == want)
}

func VerifC03_InSet() {
	k := c03K()
	s := c03New(k)
	a := vrt.Choice("a", k)
	mask := vrt.Choice("targets", 1<<k)
	var ts []types.EntityUID
	want := false
	for j := 0; j < k; j++ {
		if mask&(1<<j) != 0 {
			ts = append(ts, s.ids[j])
			want = vrt.Or(want, s.reach(a, j))
		}
	}
	got := entityInSet(Env{Entities: s}, s.ids[a], mapset.Immutable(ts...))
	if got {
		vrt.Cover("C03.inset.true")
	} else {
		vrt.Cover("C03.inset.false")
	}
	vrt.Assert("C03.inset.reachability", got == want)
}

// One more node than the general harnesses, with the start fixed to node 0 and
// one or two targets among the last nodes: graphs in which a node has several
// parents that have parents of their own (work-list bookkeeping errors need a
// target that is only reachable through the second pending ancestor).
func VerifC03_InSetWide() {
	k := 4
	if vrt.Thorough() {
		k = 5
	}
	vrt.Bound("nodes-wide", k)
	s := c03New(k)
	ts := []types.EntityUID{s.ids[k-1]}
	want := s.reach(0, k-1)
	if vrt.Choice("second-target", 2) == 1 {
		ts = append(ts, s.ids[k-2])
		want = vrt.Or(want, s.reach(0, k-2))
	}
	got := entityInSet(Env{Entities: s}, s.ids[0], mapset.Immutable(ts...))
	if got {
		vrt.Cover("C03.insetwide.true")
	} else {
		vrt.Cover("C03.insetwide.false")
	}
	vrt.Assert("C03.insetwide.reachability", got == want)
}

// VerifC03_InEval drives the operators through ToEval(...).Eval: `a in b`,
// `a in [b, c]`, `a is T in b`.
func VerifC03_InEval() {
	k := c03K()
	s := c03New(k)
	a, b := vrt.Choice("a", k), vrt.Choice("b", k)
	env := Env{Entities: s}
	form := vrt.Choice("form", 3)
	switch form {
	case 0:
		v, err := evalNode(ast.Value(s.ids[a]).In(ast.Value(s.ids[b])), env)
		vrt.Assert("C03.ineval.noerr", err == nil)
		vrt.Cover("C03.ineval.in")
		vrt.Assert("C03.ineval.in.value", v == types.Boolean(s.reach(a, b)))
	case 1:
		c := vrt.Choice("c", k)
		v, err := evalNode(ast.Value(s.ids[a]).In(ast.Set(ast.Value(s.ids[b]), ast.Value(s.ids[c]))), env)
		vrt.Assert("C03.ineval.noerr", err == nil)
		vrt.Cover("C03.ineval.inset")
		vrt.Assert("C03.ineval.inset.value", v == types.Boolean(vrt.Or(s.reach(a, b), s.reach(a, c))))
	case 2:
		v, err := evalNode(ast.Value(s.ids[a]).IsIn("T", ast.Value(s.ids[b])), env)
		vrt.Assert("C03.ineval.noerr", err == nil)
		vrt.Cover("C03.ineval.isin")
		isT := s.ids[a].Type == "T"
		vrt.Assert("C03.ineval.isin.value", v == types.Boolean(vrt.And(isT, s.reach(a, b))))
	}
}

// VerifC03_Scope checks that the scope forms agree with the operator, through
// Compile (the path Authorize runs).
func VerifC03_Scope() {
	k := c03K()
	s := c03New(k)
	a, b := vrt.Choice("a", k), vrt.Choice("b", k)
	env := Env{Entities: s, Principal: s.ids[a], Action: s.ids[a], Resource: s.ids[a]}
	p := &ast.Policy{Effect: ast.EffectPermit, Principal: ast.ScopeTypeAll{}, Action: ast.ScopeTypeAll{}, Resource: ast.ScopeTypeAll{}}
	var want bool
	switch vrt.Choice("form", 4) {
	case 0:
		p.Principal = ast.ScopeTypeIn{Entity: s.ids[b]}
		want = s.reach(a, b)
		vrt.Cover("C03.scope.principal-in")
	case 1:
		c := vrt.Choice("c", k)
		p.Action = ast.ScopeTypeInSet{Entities: []types.EntityUID{s.ids[b], s.ids[c]}}
		want = vrt.Or(s.reach(a, b), s.reach(a, c))
		vrt.Cover("C03.scope.action-in-set")
	case 2:
		p.Resource = ast.ScopeTypeIsIn{Type: "T", Entity: s.ids[b]}
		want = vrt.And(s.ids[a].Type == "T", s.reach(a, b))
		vrt.Cover("C03.scope.resource-is-in")
	case 3:
		p.Resource = ast.ScopeTypeIn{Entity: s.ids[b]}
		want = s.reach(a, b)
		vrt.Cover("C03.scope.resource-in")
	}
	ev := Compile(p)
	got, err := ev.Eval(env)
	vrt.Assert("C03.scope.noerr", err == nil)
	vrt.Assert("C03.scope.agrees", bool(got) == want)
}

// VerifC03_PartialScope: the scope matcher of PartialPolicy (the path batch.Authorize
// runs) decides `in` / `is .. in` scopes with fully known principal and resource by
// the same reachability relation: the policy is kept exactly when the scope matches.
func VerifC03_PartialScope() {
	k := c03K()
	s := c03New(k)
	a, b := vrt.Choice("a", k), vrt.Choice("b", k)
	env := Env{Entities: s, Principal: s.ids[a], Action: s.ids[a], Resource: s.ids[a], Context: types.Record{}}
	p := &ast.Policy{Effect: ast.EffectPermit, Principal: ast.ScopeTypeAll{}, Action: ast.ScopeTypeAll{}, Resource: ast.ScopeTypeAll{}}
	var want bool
	switch vrt.Choice("form", 5) {
	case 0:
		p.Principal = ast.ScopeTypeIn{Entity: s.ids[b]}
		want = s.reach(a, b)
	case 1:
		c := vrt.Choice("c", k)
		p.Action = ast.ScopeTypeInSet{Entities: []types.EntityUID{s.ids[b], s.ids[c]}}
		want = vrt.Or(s.reach(a, b), s.reach(a, c))
	case 2:
		p.Resource = ast.ScopeTypeIsIn{Type: "T", Entity: s.ids[b]}
		want = vrt.And(s.ids[a].Type == "T", s.reach(a, b))
	case 3:
		p.Resource = ast.ScopeTypeIn{Entity: s.ids[b]}
		want = s.reach(a, b)
	case 4:
		p.Principal = ast.ScopeTypeIsIn{Type: "T", Entity: s.ids[b]}
		want = vrt.And(s.ids[a].Type == "T", s.reach(a, b))
	}
	res, keep := PartialPolicy(env, p)
	if keep {
		vrt.Cover("C03.partialscope.kept")
		// a kept policy with everything known has no scope left to fail
		be := BoolEvaler{eval: ToEval(PolicyToNode(res).AsIsNode())}
		v, err := be.Eval(env)
		vrt.Assert("C03.partialscope.kept-means-matching", want && err == nil && bool(v))
	} else {
		vrt.Cover("C03.partialscope.dropped")
		vrt.Assert("C03.partialscope.dropped-means-not-matching", !want)
	}
}
