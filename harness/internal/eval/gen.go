//go:build verif

package eval

import (
	"errors"

	"github.com/cedar-policy/cedar-go/internal"
	"github.com/cedar-policy/cedar-go/internal/vrt"
	"github.com/cedar-policy/cedar-go/types"
	"github.com/cedar-policy/cedar-go/x/exp/ast"
)

// Shared expression generator: operators are engine-level selectors (one path
// per shape), constant payloads and environment values are symbolic.

var (
	genE  = types.NewEntityUID("T", "e")  // present in the store, has attr a, tag t, parent genP
	genP  = types.NewEntityUID("T", "p")  // present, no parents
	genX  = types.NewEntityUID("U", "x")  // absent from the store
	genUT = types.EntityType("T")
)

type genEnv struct {
	env  Env
	ctxK int64 // context.k
	ctxB bool  // context.b
	attr int64 // genE.a
}

// genMkEnv builds an environment with symbolic payloads.
func genMkEnv() genEnv {
	g := genEnv{ctxK: genInt64("context.k"), ctxB: vrt.Bool("context.b"), attr: genInt64("e.a")}
	ents := types.EntityMap{
		genE: types.Entity{UID: genE, Parents: types.NewEntityUIDSet(genP),
			Attributes: types.NewRecord(types.RecordMap{"a": types.Long(g.attr)}),
			Tags:       types.NewRecord(types.RecordMap{"t": types.Long(g.attr)})},
		genP: types.Entity{UID: genP},
	}
	g.env = Env{Entities: ents, Principal: genE, Action: types.NewEntityUID("Action", "act"), Resource: genP,
		Context: types.NewRecord(types.RecordMap{"k": types.Long(g.ctxK), "b": types.Boolean(g.ctxB), "r": types.NewRecord(types.RecordMap{"a": types.Long(g.ctxK)}),
			"s": types.NewSet(types.Long(g.ctxK), types.Long(7))})}
	return g
}

const (
	leafLong = iota
	leafBool
	leafString
	leafOverflow // MaxInt64 + x : overflows iff x > 0
	leafTypeErr  // 1 < "a"
	leafCtxK
	leafCtxB
	leafEntity
	leafAbsent
	leafSet
	leafRecord
	leafPrincipal
	leafCtxRec
	leafDecimal
	leafCtxS
	leafCtx
	leafResource
	leafNegLong
	leafMinLong
	leafSmallLong
	leafDatetime
	leafDuration
	leafIP
	leafSetOfEntities
	leafEmptySet
	leafCount
)

var genLeafNames = []string{"long", "bool", "string", "overflow", "typeerr", "context.k", "context.b", "entity", "absent-entity", "set", "record", "principal", "context.r", "decimal", "context.s", "context", "resource", "-5", "minint64", "small-long", "datetime", "duration", "ip", "set-of-entities", "empty-set"}

// genDigitPayloads restricts generated Long payloads to one decimal digit (used by
// the text round-trip harnesses, where printing a full-range symbolic number
// forks on its digit count and makes re-parsing a 19-digit arithmetic problem).
var genDigitPayloads bool

func VGenDigitPayloads(on bool) { genDigitPayloads = on }

func genInt64(label string) int64 {
	v := vrt.Int64(label)
	if genDigitPayloads {
		vrt.Assume(vrt.And(v >= 0, v <= 9))
	}
	return v
}

func genLeaf(label string, classes []int) (ast.Node, int) {
	k := classes[vrt.Choice(label+".leaf", len(classes))]
	switch k {
	case leafLong:
		return ast.Long(genInt64(label + ".long")), k
	case leafBool:
		return ast.Boolean(vrt.Bool(label + ".bool")), k
	case leafString:
		return ast.String("a"), k
	case leafOverflow:
		return ast.Long(int64(9223372036854775807)).Add(ast.Long(genInt64(label + ".addend"))), k
	case leafTypeErr:
		return ast.Long(1).LessThan(ast.String("a")), k
	case leafCtxK:
		return ast.Context().Access("k"), k
	case leafCtxB:
		return ast.Context().Access("b"), k
	case leafEntity:
		return ast.Value(genE), k
	case leafAbsent:
		return ast.Value(genX), k
	case leafSet:
		return ast.Set(ast.Long(genInt64(label+".set0")), ast.Long(1)), k
	case leafRecord:
		return ast.Record(ast.Pairs{{Key: "a", Value: ast.Long(genInt64(label + ".rec.a"))}}), k
	case leafPrincipal:
		return ast.Principal(), k
	case leafCtxRec:
		return ast.Context().Access("r"), k
	case leafDecimal:
		return ast.Value(types.Decimal{}), k
	case leafCtxS:
		return ast.Context().Access("s"), k
	case leafCtx:
		return ast.Context(), k
	case leafResource:
		return ast.Resource(), k
	case leafNegLong:
		return ast.Long(-5), k
	case leafMinLong:
		return ast.Long(int64(-9223372036854775808)), k
	case leafDatetime:
		return ast.Value(types.NewDatetimeFromMillis(genInt64(label + ".datetime"))), k
	case leafDuration:
		return ast.Value(types.NewDurationFromMillis(genInt64(label + ".duration"))), k
	case leafIP:
		ip, _ := types.ParseIPAddr("10.1.2.3/24")
		return ast.Value(ip), k
	case leafSetOfEntities:
		return ast.Set(ast.Value(genP), ast.Value(genX)), k
	case leafEmptySet:
		return ast.Set(), k
	case leafSmallLong:
		v := vrt.Int64(label + ".small")
		vrt.Assume(vrt.And(v >= 0, v <= 9)) // one digit: printing does not fork
		return ast.Long(v), k
	}
	panic("leaf")
}

const (
	opAnd = iota
	opOr
	opEq
	opNe
	opLt
	opLe
	opGt
	opGe
	opAdd
	opSub
	opMul
	opIn
	opContains
	opContainsAll
	opContainsAny
	opGetTag
	opHasTag
	opBinaryCount
)

var genBinNames = []string{"&&", "||", "==", "!=", "<", "<=", ">", ">=", "+", "-", "*", "in", "contains", "containsAll", "containsAny", "getTag", "hasTag"}

func genBinary(op int, l, r ast.Node) ast.Node {
	switch op {
	case opAnd:
		return l.And(r)
	case opOr:
		return l.Or(r)
	case opEq:
		return l.Equal(r)
	case opNe:
		return l.NotEqual(r)
	case opLt:
		return l.LessThan(r)
	case opLe:
		return l.LessThanOrEqual(r)
	case opGt:
		return l.GreaterThan(r)
	case opGe:
		return l.GreaterThanOrEqual(r)
	case opAdd:
		return l.Add(r)
	case opSub:
		return l.Subtract(r)
	case opMul:
		return l.Multiply(r)
	case opIn:
		return l.In(r)
	case opContains:
		return l.Contains(r)
	case opContainsAll:
		return l.ContainsAll(r)
	case opContainsAny:
		return l.ContainsAny(r)
	case opGetTag:
		return l.GetTag(r)
	case opHasTag:
		return l.HasTag(r)
	}
	panic("binop")
}

const (
	uNot = iota
	uNeg
	uIsEmpty
	uHasA
	uAccessA
	uLike
	uIsT
	uIsInP
	uIfCond // if x then 1 else 2
	uIfThen // if context.b then x else 2
	uToDate // unknown-arity / extension calls
	uExtBadArity
	uUnaryCount
)

var genUnNames = []string{"!", "neg", "isEmpty", "has a", ".a", "like", "is T", "is T in p", "if x", "if b then x", "datetime-method", "ext-bad-arity"}

func genUnary(op int, x ast.Node) ast.Node {
	switch op {
	case uNot:
		return ast.Not(x)
	case uNeg:
		return ast.Negate(x)
	case uIsEmpty:
		return x.IsEmpty()
	case uHasA:
		return x.Has("a")
	case uAccessA:
		return x.Access("a")
	case uLike:
		return x.Like(types.NewPattern(types.Wildcard{}, types.String("a")))
	case uIsT:
		return x.Is(genUT)
	case uIsInP:
		return x.IsIn(genUT, ast.Value(genP))
	case uIfCond:
		return ast.IfThenElse(x, ast.Long(1), ast.Long(2))
	case uIfThen:
		return ast.IfThenElse(ast.Context().Access("b"), x, ast.Long(2))
	case uToDate:
		return ast.ExtensionCall("toMilliseconds", x)
	case uExtBadArity:
		return ast.ExtensionCall("decimal", x, x)
	}
	panic("unop")
}

// sameOutcome: both error, or both values and Equal (non-forking where possible).
func sameOutcome(v1 types.Value, e1 error, v2 types.Value, e2 error) bool {
	if (e1 != nil) != (e2 != nil) {
		return false
	}
	if e1 != nil {
		return true
	}
	return v1.Equal(v2)
}

// ---- exported views for harnesses in other packages (root, parser) ----

type VGenEnv = genEnv

func VGenMkEnv() genEnv                                   { return genMkEnv() }
func (g genEnv) Env() Env                                 { return g.env }
func VGenLeaf(label string, classes []int) (ast.Node, int) { return genLeaf(label, classes) }
func VGenBinary(op int, l, r ast.Node) ast.Node           { return genBinary(op, l, r) }
func VGenUnary(op int, x ast.Node) ast.Node               { return genUnary(op, x) }
func VSameOutcome(v1 types.Value, e1 error, v2 types.Value, e2 error) bool {
	return sameOutcome(v1, e1, v2, e2)
}

const (
	VOpBinaryCount = opBinaryCount
	VUnaryCount    = uUnaryCount
	VLeafLong      = leafLong
	VLeafBool      = leafBool
	VLeafString    = leafString
	VLeafOverflow  = leafOverflow
	VLeafTypeErr   = leafTypeErr
	VLeafCtxK      = leafCtxK
	VLeafCtxB      = leafCtxB
	VLeafEntity    = leafEntity
	VLeafSet       = leafSet
	VLeafRecord    = leafRecord
	VLeafPrincipal = leafPrincipal
	VLeafDecimal   = leafDecimal
	VLeafNegLong   = leafNegLong
	VLeafMinLong   = leafMinLong
	VLeafSmallLong = leafSmallLong
	VLeafDatetime  = leafDatetime
	VLeafDuration  = leafDuration
	VLeafIP        = leafIP
)

// VErrClass classifies an evaluation error by its sentinel.
func VErrClass(err error) string {
	switch {
	case err == nil:
		return ""
	case errors.Is(err, ErrType), errors.Is(err, internal.ErrNotComparable):
		return "type"
	case errors.Is(err, errOverflow):
		return "overflow"
	case errors.Is(err, errAttributeAccess):
		return "attr"
	case errors.Is(err, errTagAccess):
		return "tag"
	case errors.Is(err, errEntityNotExist), errors.Is(err, errUnspecifiedEntity):
		return "entity"
	case errors.Is(err, errArity):
		return "arity"
	case errors.Is(err, errUnknownExtensionFunction):
		return "unknown-fn"
	case errors.Is(err, internal.ErrDecimal), errors.Is(err, internal.ErrDatetime), errors.Is(err, internal.ErrDuration), errors.Is(err, internal.ErrIP), errors.Is(err, internal.ErrDurationRange):
		return "ext"
	}
	return "other"
}
