//go:build verif

// Package vrt is the runtime of the /verif harnesses.  Inside the symbolic
// executor (gosym) every function below is intercepted by name; the bodies here
// are the *native* meaning, used when a solver model is replayed against the
// compiled code: nondet sources return the next value of the model file named
// by VERIF_MODEL, Assert panics, Cover records the label.
package vrt

import (
	"encoding/json"
	"fmt"
	"os"
	"strconv"
)

type modelVal struct {
	Label string `json:"label"`
	Seq   int    `json:"seq"`
	Type  string `json:"type"`
	Value string `json:"value"`
}

var (
	model   []modelVal
	next    int
	loaded  bool
	Covered []string
	tier    = "quick"
	// Skipped is set when an Assume failed natively (the model does not apply).
	Skipped bool
)

type assumeFailed struct{}

// Reset reloads the model (used by the replay test).
func Reset() {
	model, next, loaded, Covered, Skipped = nil, 0, false, nil, false
}

func load() {
	if loaded {
		return
	}
	loaded = true
	if t := os.Getenv("VERIF_TIER"); t != "" {
		tier = t
	}
	p := os.Getenv("VERIF_MODEL")
	if p == "" {
		return
	}
	b, err := os.ReadFile(p)
	if err != nil {
		panic("vrt: " + err.Error())
	}
	var f struct {
		Tier  string     `json:"tier"`
		Model []modelVal `json:"model"`
	}
	if err := json.Unmarshal(b, &f); err != nil {
		panic("vrt: " + err.Error())
	}
	model = f.Model
	if f.Tier != "" {
		tier = f.Tier
	}
}

func nextVal(label, typ string) string {
	load()
	if next >= len(model) {
		next++
		return "0"
	}
	m := model[next]
	next++
	_ = label
	_ = typ
	return m.Value
}

func i64(label, typ string) int64 {
	v, err := strconv.ParseInt(nextVal(label, typ), 10, 64)
	if err != nil {
		panic("vrt: bad model value for " + label)
	}
	return v
}

func u64(label, typ string) uint64 {
	v, err := strconv.ParseUint(nextVal(label, typ), 10, 64)
	if err != nil {
		panic("vrt: bad model value for " + label)
	}
	return v
}

func Bool(label string) bool     { return u64(label, "bool") != 0 }
func Int64(label string) int64   { return i64(label, "int64") }
func Uint64(label string) uint64 { return u64(label, "uint64") }
func Int(label string) int       { return int(i64(label, "int")) }
func Int32(label string) int32   { return int32(i64(label, "int32")) }
func Uint32(label string) uint32 { return uint32(u64(label, "uint32")) }
func Uint16(label string) uint16 { return uint16(u64(label, "uint16")) }
func Byte(label string) byte     { return byte(u64(label, "byte")) }
func Rune(label string) rune     { return rune(i64(label, "rune")) }

func Bytes(label string, n int) []byte {
	b := make([]byte, n)
	for i := range b {
		b[i] = Byte(fmt.Sprintf("%s[%d]", label, i))
	}
	return b
}

func String(label string, n int) string { return string(Bytes(label, n)) }

func IntRange(label string, lo, hi int) int {
	v := Int(label)
	if v < lo || v > hi {
		panic(assumeFailed{})
	}
	return v
}

func Choice(label string, n int) int { return int(i64(label, "choice")) }

func Concretize(x int) int          { return x }
func ConcretizeInt64(x int64) int64 { return x }
func ConcretizeBool(x bool) bool    { return x }

func Assume(cond bool) {
	if !cond {
		Skipped = true
		panic(assumeFailed{})
	}
}

func Assert(label string, cond bool) {
	if !cond {
		panic("VERIF-ASSERT " + label)
	}
}

func Cover(label string)            { Covered = append(Covered, label) }
func Tag(label string)              {}
func Observe(label string, v any)   {}
func And(a, b bool) bool            { return a && b }
func Or(a, b bool) bool             { return a || b }
func Not(a bool) bool               { return !a }
func Implies(a, b bool) bool        { return !a || b }
func IteInt64(c bool, a, b int64) int64 {
	if c {
		return a
	}
	return b
}
func IteInt(c bool, a, b int) int {
	if c {
		return a
	}
	return b
}
func IteBool(c, a, b bool) bool {
	if c {
		return a
	}
	return b
}
func IteByte(c bool, a, b byte) byte {
	if c {
		return a
	}
	return b
}

// AddFits etc.: the exact mathematical result is representable in int64.
func AddFits(a, b int64) bool {
	s := a + b
	return !((a > 0 && b > 0 && s < 0) || (a < 0 && b < 0 && s >= 0))
}
func SubFits(a, b int64) bool {
	s := a - b
	return !((a >= 0 && b < 0 && s < 0) || (a < 0 && b > 0 && s >= 0))
}
func MulFits(a, b int64) bool {
	if a == 0 || b == 0 {
		return true
	}
	p := a * b
	if (a == -1 && b == -9223372036854775808) || (b == -1 && a == -9223372036854775808) {
		return false
	}
	return p/b == a
}

func EqBytes(a, b []byte) bool   { return string(a) == string(b) }
func EqString(a, b string) bool  { return a == b }
func Theory(name string)         {}
func Bound(name string, v int)   {}
func Tier() string               { load(); return tier }
func Thorough() bool             { load(); return tier == "thorough" }
func Symbolic() bool             { return false }
func NondetMapOrder(on bool)     {}
func Freeze(roots ...any)        {}
func Unfreeze()                  {}
func Writes() int                { return 0 }
func Steps() int                 { return 0 }

// Run executes a harness natively and classifies the outcome for the replay test.
func Run(h func()) (outcome string) {
	Reset()
	defer func() {
		if r := recover(); r != nil {
			switch p := r.(type) {
			case assumeFailed:
				outcome = "skipped"
			case string:
				if len(p) > 13 && p[:13] == "VERIF-ASSERT " {
					outcome = "assert:" + p[13:]
				} else {
					outcome = "panic:" + p
				}
			case error:
				outcome = "panic:" + p.Error()
			default:
				outcome = fmt.Sprintf("panic:%v", r)
			}
		}
	}()
	h()
	return "ok"
}

// Repeat is 1 inside the symbolic executor (map iteration order is explored as a
// forked permutation there) and n natively, where Go randomises map order and an
// order-dependent result only shows up after several tries.
func Repeat(n int) int { return n }

// NondetMapOrderAt(k): inside the executor only the k-th map iteration from now on takes a
// forked permutation (bounding the product over many loops); natively a no-op.
func NondetMapOrderAt(k int) {}

// Concurrently runs f in n goroutines natively (the replay of a C19 violation is
// built with -race); inside the executor f runs once under the write monitor.
func Concurrently(n int, f func()) {
	done := make(chan struct{}, n)
	for i := 0; i < n; i++ {
		go func() {
			defer func() { done <- struct{}{} }()
			f()
		}()
	}
	for i := 0; i < n; i++ {
		<-done
	}
}
