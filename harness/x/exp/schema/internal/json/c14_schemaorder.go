//go:build verif

package json

import (
	"bytes"

	"github.com/cedar-policy/cedar-go/internal/vrt"
	"github.com/cedar-policy/cedar-go/types"
	"github.com/cedar-policy/cedar-go/x/exp/schema/ast"
	"github.com/cedar-policy/cedar-go/x/exp/schema/internal/parser"
)

// C14 (schema): rendering the same schema always produces the same bytes, also
// after a decode -> encode step through the JSON structs.
func VerifC14_SchemaMarshalOrder() {
	s := &ast.Schema{
		Entities: ast.Entities{
			"B": ast.Entity{}, "A": ast.Entity{ParentTypes: []ast.EntityTypeRef{"B"}, Shape: ast.RecordType{"z": ast.Attribute{Type: ast.Long()}, "y": ast.Attribute{Type: ast.String(), Optional: true}, "x": ast.Attribute{Type: ast.RecordType{"q": ast.Attribute{Type: ast.Bool()}, "p": ast.Attribute{Type: ast.Long()}}}},
				Annotations: ast.Annotations{"b": "1", "a": "2"}},
			"C": ast.Entity{Tags: ast.String()},
		},
		Enums:       ast.Enums{"E2": ast.Enum{Values: []types.String{"x", "y"}}, "E1": ast.Enum{Values: []types.String{"y"}}},
		CommonTypes: ast.CommonTypes{"T2": ast.CommonType{Type: ast.Long()}, "T1": ast.CommonType{Type: ast.Set(ast.TypeRef("T2"))}},
		Actions: ast.Actions{
			"view":  ast.Action{Parents: []ast.ParentRef{ast.ParentRefFromID("group")}, AppliesTo: &ast.AppliesTo{Principals: []ast.EntityTypeRef{"A", "C"}, Resources: []ast.EntityTypeRef{"B"}, Context: ast.RecordType{"k2": ast.Attribute{Type: ast.Long()}, "k1": ast.Attribute{Type: ast.TypeRef("T1")}}}},
			"group": ast.Action{},
			"edit":  ast.Action{Annotations: ast.Annotations{"doc": "d"}},
		},
		Namespaces: ast.Namespaces{"N2": ast.Namespace{Entities: ast.Entities{"X": ast.Entity{}}}, "N1": ast.Namespace{Entities: ast.Entities{"Y": ast.Entity{}, "X": ast.Entity{}}}},
	}
	want := parser.MarshalSchema(s)
	vrt.Cover("C14.schema.checked")
	which := vrt.Choice("permuted-map-iteration", 60)
	vrt.Bound("one-permuted-map-iteration-per-path-among-first", 60)
	for i := 0; i < vrt.Repeat(100); i++ {
		vrt.NondetMapOrderAt(which)
		got := parser.MarshalSchema(s)
		back, err := c17ThroughJSONStructs(s)
		var got2 []byte
		if err == nil {
			got2 = parser.MarshalSchema(back)
		}
		vrt.NondetMapOrder(false)
		vrt.Assert("C14.schema.same-bytes", bytes.Equal(got, want))
		vrt.Assert("C14.schema.decode-encode-same-bytes", err == nil && bytes.Equal(got2, want))
	}
}

