//go:build verif

package json

import (
	"bytes"
	"sort"

	"github.com/cedar-policy/cedar-go/internal/vrt"
	"github.com/cedar-policy/cedar-go/types"
	"github.com/cedar-policy/cedar-go/x/exp/schema/ast"
	"github.com/cedar-policy/cedar-go/x/exp/schema/internal/parser"
	"github.com/cedar-policy/cedar-go/x/exp/schema/resolved"
)

// C17: rendering a schema as Cedar schema text, or converting it through the
// JSON structs, and reading it back yields a schema that resolves to the same
// resolved schema; a second rendering is byte-identical.  (The encoding/json
// byte layer of the JSON format is outside; the struct conversion is covered.)

// ---- structural equality over resolved schemas (hand-written, no reflect) ----

func c17EqAnn(a, b resolved.Annotations) bool {
	if len(a) != len(b) {
		return false
	}
	for k, v := range a {
		w, ok := b[k]
		if !ok || w != v {
			return false
		}
	}
	return true
}

func c17EqType(a, b resolved.IsType) bool {
	switch x := a.(type) {
	case nil:
		return b == nil
	case resolved.StringType:
		_, ok := b.(resolved.StringType)
		return ok
	case resolved.LongType:
		_, ok := b.(resolved.LongType)
		return ok
	case resolved.BoolType:
		_, ok := b.(resolved.BoolType)
		return ok
	case resolved.ExtensionType:
		y, ok := b.(resolved.ExtensionType)
		return ok && x == y
	case resolved.EntityType:
		y, ok := b.(resolved.EntityType)
		return ok && x == y
	case resolved.SetType:
		y, ok := b.(resolved.SetType)
		return ok && c17EqType(x.Element, y.Element)
	case resolved.RecordType:
		y, ok := b.(resolved.RecordType)
		return ok && c17EqRecord(x, y)
	}
	return false
}

func c17EqRecord(a, b resolved.RecordType) bool {
	if len(a) != len(b) {
		return false
	}
	for k, x := range a {
		y, ok := b[k]
		if !ok || x.Optional != y.Optional || !c17EqType(x.Type, y.Type) || !c17EqAnn(x.Annotations, y.Annotations) {
			return false
		}
	}
	return true
}

func c17EqTypeList(a, b []types.EntityType) bool {
	x := append([]types.EntityType{}, a...)
	y := append([]types.EntityType{}, b...)
	sort.Slice(x, func(i, j int) bool { return x[i] < x[j] })
	sort.Slice(y, func(i, j int) bool { return y[i] < y[j] })
	if len(x) != len(y) {
		return false
	}
	for i := range x {
		if x[i] != y[i] {
			return false
		}
	}
	return true
}

func c17EqResolved(a, b *resolved.Schema) bool {
	if len(a.Namespaces) != len(b.Namespaces) || len(a.Entities) != len(b.Entities) || len(a.Enums) != len(b.Enums) || len(a.Actions) != len(b.Actions) {
		return false
	}
	for k, x := range a.Namespaces {
		y, ok := b.Namespaces[k]
		if !ok || x.Name != y.Name || !c17EqAnn(x.Annotations, y.Annotations) {
			return false
		}
	}
	for k, x := range a.Entities {
		y, ok := b.Entities[k]
		if !ok || x.Name != y.Name || !c17EqAnn(x.Annotations, y.Annotations) || !c17EqTypeList(x.ParentTypes, y.ParentTypes) || !c17EqRecord(x.Shape, y.Shape) || !c17EqType(x.Tags, y.Tags) {
			return false
		}
	}
	for k, x := range a.Enums {
		y, ok := b.Enums[k]
		if !ok || x.Name != y.Name || !c17EqAnn(x.Annotations, y.Annotations) || len(x.Values) != len(y.Values) {
			return false
		}
		for i := range x.Values {
			if x.Values[i] != y.Values[i] {
				return false
			}
		}
	}
	for k, x := range a.Actions {
		y, ok := b.Actions[k]
		if !ok || x.Entity.UID != y.Entity.UID || !x.Entity.Parents.Equal(y.Entity.Parents) || !c17EqAnn(x.Annotations, y.Annotations) {
			return false
		}
		if (x.AppliesTo == nil) != (y.AppliesTo == nil) {
			return false
		}
		if x.AppliesTo != nil {
			if !c17EqTypeList(x.AppliesTo.Principals, y.AppliesTo.Principals) || !c17EqTypeList(x.AppliesTo.Resources, y.AppliesTo.Resources) || !c17EqRecord(x.AppliesTo.Context, y.AppliesTo.Context) {
				return false
			}
		}
	}
	return true
}

// ---- generator: declaration shapes are selectors; names carry a symbolic rune ----

// Dimensions of variation: only the active ones vary on a path (quick: one,
// thorough: two), the others take their default.
var c17Active map[int]bool

// c17SingleDim: vary one dimension per path only (byte-level harness, quick tier).
var c17SingleDim bool

func c17Pick(dim int, label string, n int) int {
	if c17Active[dim] {
		return vrt.Choice(label, n)
	}
	return 0
}

func c17Name(dim int, label string) types.String {
	if !c17Active[dim] {
		return "n1"
	}
	r := vrt.Rune(label)
	if k := vrt.Choice(label+".rune-class", 5); k != 0 {
		// sampled code points beyond the symbolic range
		return types.String("n" + string([]rune{0xE9, 0x2028, 0xFFFD, 0x1F600}[k-1]))
	}
	if !vrt.Thorough() {
		vrt.Assume(r < 0x80)
	} else {
		// two-byte UTF-8 forms included; the Unicode class tables above U+024F fork
		// once per table range and are left out (the run did not finish in 40 minutes)
		vrt.Assume(vrt.And(r >= 0, r < 0x250))
		vrt.Bound("symbolic-rune-below-0x250-in-thorough", 0x250)
	}
	return types.String("n" + string(r))
}

func c17AttrType(label string) ast.IsType {
	switch c17Pick(1, label, 9) {
	case 0:
		return ast.Long()
	case 1:
		return ast.String()
	case 2:
		return ast.Bool()
	case 3:
		return ast.Set(ast.Long())
	case 4:
		return ast.EntityTypeRef("B")
	case 5:
		return ast.TypeRef("T")
	case 6:
		return ast.Decimal()
	case 7:
		return ast.RecordType{"inner": ast.Attribute{Type: ast.Set(ast.EntityTypeRef("B")), Optional: true}}
	default:
		return ast.RecordType{}
	}
}

func c17Decls(label string) (ast.Entities, ast.Enums, ast.Actions, ast.CommonTypes) {
	ents := ast.Entities{"B": ast.Entity{}}
	a := ast.Entity{Shape: ast.RecordType{}}
	if c17Pick(0, label+".parent", 2) == 1 {
		a.ParentTypes = []ast.EntityTypeRef{"B"}
	}
	attr := ast.Attribute{Type: c17AttrType(label + ".attr-type"), Optional: c17Pick(2, label+".optional", 2) == 1}
	if c17Pick(2, label+".attr-annotation", 2) == 1 {
		attr.Annotations = ast.Annotations{"doc": "x"}
	}
	a.Shape[c17Name(3, label+".attr-name")] = attr
	switch c17Pick(4, label+".tags", 3) {
	case 1:
		a.Tags = ast.String()
	case 2:
		a.Tags = ast.Set(ast.TypeRef("T"))
	}
	switch c17Pick(5, label+".annotations", 3) {
	case 1:
		a.Annotations = ast.Annotations{"doc": ""}
	case 2:
		a.Annotations = ast.Annotations{"doc": c17Name(5, label+".annotation-value")}
	}
	ents["A"] = a
	enums := ast.Enums{}
	if c17Pick(6, label+".enum", 2) == 1 {
		enums["E"] = ast.Enum{Values: []types.String{"x", c17Name(6, label+".enum-value")}}
	}
	cts := ast.CommonTypes{"T": ast.CommonType{Type: ast.Long()}, "R": ast.CommonType{Type: ast.RecordType{"g": ast.Attribute{Type: ast.Long()}, "h": ast.Attribute{Type: ast.Bool(), Optional: true}}}}
	if c17Pick(7, label+".common-record", 2) == 1 {
		cts["T"] = ast.CommonType{Type: ast.RecordType{"f": ast.Attribute{Type: ast.String()}}, Annotations: ast.Annotations{"a": "b"}}
	}
	acts := ast.Actions{"group": ast.Action{}}
	view := ast.Action{}
	switch c17Pick(8, label+".memberOf", 4) {
	case 1:
		view.Parents = []ast.ParentRef{ast.ParentRefFromID("group")}
	case 2:
		view.Parents = []ast.ParentRef{ast.NewParentRef("Action", "root")} // unqualified type: the empty namespace's action
	case 3:
		if label == "ns" {
			view.Parents = []ast.ParentRef{ast.NewParentRef("NS::Action", "group"), ast.NewParentRef("Action", "root")}
		} else {
			view.Parents = []ast.ParentRef{ast.NewParentRef("Action", "group"), ast.ParentRefFromID("root")}
		}
	}
	if label != "ns" {
		acts["root"] = ast.Action{}
	}
	switch c17Pick(9, label+".appliesTo", 5) {
	case 4:
		// the context named by a common type instead of written inline
		view.AppliesTo = &ast.AppliesTo{Principals: []ast.EntityTypeRef{"A"}, Resources: []ast.EntityTypeRef{"B"}, Context: ast.TypeRef("R")}
	case 1:
		view.AppliesTo = &ast.AppliesTo{Principals: []ast.EntityTypeRef{"A"}, Resources: []ast.EntityTypeRef{"A", "B"}}
	case 2:
		view.AppliesTo = &ast.AppliesTo{Principals: []ast.EntityTypeRef{"A"}, Resources: []ast.EntityTypeRef{"B"}, Context: ast.RecordType{"c": ast.Attribute{Type: ast.TypeRef("T"), Optional: true}}}
	case 3:
		// legal in the JSON format ("principalTypes": []), not expressible in schema text
		vrt.Tag("empty-appliesTo-lists")
		view.AppliesTo = &ast.AppliesTo{Principals: []ast.EntityTypeRef{}, Resources: []ast.EntityTypeRef{}, Context: ast.RecordType{}}
	}
	acts[c17Name(10, label+".action-name")] = view
	return ents, enums, acts, cts
}

func c17Schema() *ast.Schema {
	const dims = 12
	c17Active = map[int]bool{vrt.Choice("vary-dimension", dims): true}
	if !c17SingleDim {
		c17Active[vrt.Choice("vary-dimension-2", dims)] = true
	}
	vrt.Bound("dimensions-varied-together", len(c17Active))
	s := &ast.Schema{}
	if c17Pick(11, "namespaced", 2) == 1 {
		e, en, ac, ct := c17Decls("ns")
		s.Namespaces = ast.Namespaces{"NS": ast.Namespace{Entities: e, Enums: en, Actions: ac, CommonTypes: ct, Annotations: ast.Annotations{"doc": "ns"}}}
		// inside a named namespace an unqualified `Action::"group"` parent refers to the empty
		// namespace, so that action exists there too
		s.Actions = ast.Actions{"root": ast.Action{}}
	} else {
		s.Entities, s.Enums, s.Actions, s.CommonTypes = c17Decls("bare")
	}
	return s
}

func VerifC17_TextRoundTrip() {
	s := c17Schema()
	want, err := resolved.Resolve(s)
	if err != nil {
		return
	}
	text := parser.MarshalSchema(s)
	back, perr := parser.ParseSchema("f.cedarschema", text)
	vrt.Cover("C17.text.checked")
	vrt.Assert("C17.text.parses", perr == nil)
	got, rerr := resolved.Resolve(back)
	vrt.Assert("C17.text.resolves", rerr == nil)
	vrt.Assert("C17.text.same-resolved-schema", c17EqResolved(want, got))
	text2 := parser.MarshalSchema(back)
	vrt.Assert("C17.text.second-rendering-identical", bytes.Equal(text, text2))
}

func c17ThroughJSONStructs(s *ast.Schema) (*ast.Schema, error) {
	out := &ast.Schema{}
	if hasBareDecls(s) {
		jns, err := marshalNamespace("", ast.Namespace{Entities: s.Entities, Enums: s.Enums, Actions: s.Actions, CommonTypes: s.CommonTypes})
		if err != nil {
			return nil, err
		}
		ns, err := unmarshalNamespace(jns)
		if err != nil {
			return nil, err
		}
		out.Entities, out.Enums, out.Actions, out.CommonTypes = ns.Entities, ns.Enums, ns.Actions, ns.CommonTypes
	}
	for name, ns := range s.Namespaces {
		jns, err := marshalNamespace(name, ns)
		if err != nil {
			return nil, err
		}
		back, err := unmarshalNamespace(jns)
		if err != nil {
			return nil, err
		}
		if out.Namespaces == nil {
			out.Namespaces = ast.Namespaces{}
		}
		out.Namespaces[name] = back
	}
	return out, nil
}

func VerifC17_StructRoundTrip() {
	s := c17Schema()
	want, err := resolved.Resolve(s)
	if err != nil {
		return
	}
	back, jerr := c17ThroughJSONStructs(s)
	vrt.Cover("C17.struct.checked")
	vrt.Assert("C17.struct.converts", jerr == nil)
	got, rerr := resolved.Resolve(back)
	vrt.Assert("C17.struct.resolves", rerr == nil)
	vrt.Assert("C17.struct.same-resolved-schema", c17EqResolved(want, got))
	// conversion between the formats commutes with resolution: text of the JSON-struct copy
	// parses to a schema that resolves identically
	text := parser.MarshalSchema(back)
	viaText, perr := parser.ParseSchema("f", text)
	vrt.Assert("C17.commute.parses", perr == nil)
	got2, r2 := resolved.Resolve(viaText)
	vrt.Assert("C17.commute.same-resolved-schema", r2 == nil && c17EqResolved(want, got2))
}

// Byte level: Schema.MarshalJSON -> bytes -> Schema.UnmarshalJSON through the
// executor's model of encoding/json (struct tags and omitempty of jsonNamespace /
// jsonEntity / jsonAction / jsonType / jsonAttr, the RawMessage split per
// namespace, the "" key for bare declarations): the copy resolves to the same
// schema and a second encoding is byte-identical.
func VerifC17_JSONBytes() {
	c17SingleDim = !vrt.Thorough()
	s := c17Schema()
	c17SingleDim = false
	want, err := resolved.Resolve(s)
	if err != nil {
		return
	}
	b1, merr := (*Schema)(s).MarshalJSON()
	vrt.Cover("C17.bytes.checked")
	vrt.Assert("C17.bytes.encodes", merr == nil)
	var back Schema
	uerr := back.UnmarshalJSON(b1)
	vrt.Assert("C17.bytes.decodes", uerr == nil)
	got, rerr := resolved.Resolve((*ast.Schema)(&back))
	vrt.Assert("C17.bytes.resolves", rerr == nil)
	vrt.Assert("C17.bytes.same-resolved-schema", c17EqResolved(want, got))
	b2, merr2 := back.MarshalJSON()
	vrt.Assert("C17.bytes.encodes-again", merr2 == nil)
	vrt.Assert("C17.bytes.stable", vrt.EqBytes(b1, b2))
}
