//go:build verif

package parser

import (
	"github.com/cedar-policy/cedar-go/internal/vrt"
	"github.com/cedar-policy/cedar-go/x/exp/schema/resolved"
)

// C10 (schema text): for every lexer/parser state (reached by a fixed prefix)
// and every continuation of W arbitrary bytes, ParseSchema returns a schema or
// an error; an accepted schema can be rendered and resolved without a panic.
func VerifC10_SchemaTextWindow() {
	prefixes := []string{
		"", "entity User;\n", "/*", "//", "\"", "@doc(\"", "@", "entity A {a: ", "entity A {\"", "entity A in [", "entity A = ", "entity E enum [\"",
		"action \"", "action a appliesTo {principal: [A], resource: A, context: {", "action a in [", "type T = Set<", "namespace N {", "namespace N::",
		"entity A tags ", "action a in [B::\"",
	}
	suffixes := []string{"", ";", "\n}", "\"];", "*/ entity B;"}
	w := 2
	vrt.Bound("window-bytes", w)
	pre := prefixes[vrt.Choice("prefix", len(prefixes))]
	suf := suffixes[vrt.Choice("suffix", len(suffixes))]
	b := vrt.Bytes("w", w)
	s, err := ParseSchema("f.cedarschema", []byte(pre+string(b)+suf))
	if err != nil {
		vrt.Cover("C10.schematext.rejected")
		return
	}
	vrt.Cover("C10.schematext.accepted")
	_ = MarshalSchema(s)
	_, _ = resolved.Resolve(s)
	vrt.Assert("C10.schematext.no-panic", true)
}
