//go:build verif

package validate

import (
	"github.com/cedar-policy/cedar-go/internal/vrt"
	"github.com/cedar-policy/cedar-go/types"
	"github.com/cedar-policy/cedar-go/x/exp/ast"
	sast "github.com/cedar-policy/cedar-go/x/exp/schema/ast"
	"github.com/cedar-policy/cedar-go/x/exp/schema/resolved"
)

// C16: resolution returns a schema or an error, and validation of any policy,
// entity or request against a resolved schema returns a verdict: no panic, no
// unbounded recursion (call-depth / step budgets are the oracle; an overrun is
// replayed natively under a timeout).

var c16Names = []types.Ident{"A", "B", "C"}

func c16Policies() []*ast.Policy {
	a, b := types.NewEntityUID("A", "a"), types.NewEntityUID("B", "b")
	act := types.NewEntityUID("Action", "view")
	mk := func(n ast.Node) *ast.Policy {
		return &ast.Policy{Effect: ast.EffectPermit, Principal: ast.ScopeTypeAll{}, Action: ast.ScopeTypeAll{}, Resource: ast.ScopeTypeAll{},
			Conditions: []ast.ConditionType{{Condition: ast.ConditionWhen, Body: n.AsIsNode()}}}
	}
	ps := []*ast.Policy{
		mk(ast.Resource().In(ast.Principal())),
		mk(ast.Principal().In(ast.Resource())),
		mk(ast.Principal().In(ast.Value(b))),
		mk(ast.Principal().IsIn("A", ast.Value(b))),
		mk(ast.Value(a).In(ast.Set(ast.Value(b), ast.Principal()))),
		mk(ast.Action().In(ast.Value(types.NewEntityUID("Action", "group")))),
		mk(ast.Principal().Has("x").And(ast.Principal().Access("x").Equal(ast.Long(1)))),
	}
	ps = append(ps,
		&ast.Policy{Effect: ast.EffectForbid, Principal: ast.ScopeTypeIn{Entity: b}, Action: ast.ScopeTypeEq{Entity: act}, Resource: ast.ScopeTypeIsIn{Type: "A", Entity: b}},
		&ast.Policy{Effect: ast.EffectForbid, Principal: ast.ScopeTypeIs{Type: "C"}, Action: ast.ScopeTypeIn{Entity: types.NewEntityUID("Action", "group")}, Resource: ast.ScopeTypeIn{Entity: a}},
		&ast.Policy{Effect: ast.EffectPermit, Principal: ast.ScopeTypeAll{}, Action: ast.ScopeTypeInSet{Entities: []types.EntityUID{act, types.NewEntityUID("Action", "other")}}, Resource: ast.ScopeTypeAll{}},
	)
	return ps
}

// c16Exercise runs every validator entry point on a resolved schema.
func c16Exercise(rs *resolved.Schema) {
	for _, mode := range []Option{WithStrict(), WithPermissive()} {
		v := New(rs, mode)
		for _, p := range c16Policies() {
			_ = v.Policy("p", p)
		}
		a, b := types.NewEntityUID("A", "a"), types.NewEntityUID("B", "b")
		ents := types.EntityMap{
			a: types.Entity{UID: a, Parents: types.NewEntityUIDSet(b, a), Attributes: types.NewRecord(types.RecordMap{"x": types.Long(1)})},
			b: types.Entity{UID: b, Parents: types.NewEntityUIDSet(a)},
			types.NewEntityUID("Action", "view"): types.Entity{UID: types.NewEntityUID("Action", "view"), Parents: types.NewEntityUIDSet(types.NewEntityUID("Action", "group"))},
		}
		_ = v.Entities(ents)
		_ = v.Entity(ents[a])
		// entities whose parents are of types the hierarchy does not reach (undeclared,
		// an action, a type outside any cycle), and an entity of an undeclared type
		for _, parent := range []types.EntityUID{types.NewEntityUID("Undeclared", "u"), types.NewEntityUID("Action", "view"), types.NewEntityUID("C", "c")} {
			for _, child := range []types.EntityUID{a, b, types.NewEntityUID("Nope", "n")} {
				e := types.Entity{UID: child, Parents: types.NewEntityUIDSet(parent)}
				_ = v.Entity(e)
				_ = v.Entities(types.EntityMap{child: e})
			}
		}
		_ = v.Request(types.Request{Principal: a, Action: types.NewEntityUID("Action", "view"), Resource: b, Context: types.Record{}})
		_ = v.Request(types.Request{Principal: types.NewEntityUID("Nope", "n"), Action: types.NewEntityUID("Action", "nope"), Resource: b, Context: types.NewRecord(types.RecordMap{"k": types.Long(1)})})
	}
}

// Entity-type hierarchies of every shape: K x K parent edges (self loops,
// cycles, diamonds), one edge to an undeclared type.
func VerifC16_HierarchyShapes() {
	k := 2
	if vrt.Thorough() {
		k = 3
	}
	vrt.Bound("entity-types", k)
	s := &sast.Schema{Entities: sast.Entities{}, Actions: sast.Actions{}}
	for i := 0; i < k; i++ {
		var parents []sast.EntityTypeRef
		for j := 0; j < k; j++ {
			if vrt.Choice("edge", 2) == 1 {
				parents = append(parents, sast.EntityTypeRef(c16Names[j]))
			}
		}
		if i == 0 && vrt.Choice("undeclared-parent", 2) == 1 {
			parents = append(parents, sast.EntityTypeRef("Undeclared"))
		}
		s.Entities[c16Names[i]] = sast.Entity{ParentTypes: parents, Shape: sast.RecordType{"x": sast.Attribute{Type: sast.Long(), Optional: true}}}
	}
	all := []sast.EntityTypeRef{"A", "B"}
	s.Actions["view"] = sast.Action{AppliesTo: &sast.AppliesTo{Principals: all, Resources: all}}
	rs, err := resolved.Resolve(s)
	if err != nil {
		vrt.Cover("C16.hierarchy.rejected")
		return
	}
	vrt.Cover("C16.hierarchy.resolved")
	c16Exercise(rs)
	vrt.Assert("C16.hierarchy.terminated", true)
}

// Common types referring to each other, to themselves, to entity names and to
// undefined names; shadowing of builtin names.
func VerifC16_CommonTypeShapes() {
	mk := func(label string) sast.IsType {
		switch vrt.Choice(label, 9) {
		case 0:
			return sast.Long()
		case 1:
			return sast.TypeRef("X")
		case 2:
			return sast.TypeRef("Y")
		case 3:
			return sast.TypeRef("Undefined")
		case 4:
			return sast.EntityTypeRef("A")
		case 5:
			return sast.Set(sast.TypeRef("Y"))
		case 6:
			return sast.RecordType{"f": sast.Attribute{Type: sast.TypeRef("X")}}
		case 7:
			return sast.TypeRef("__cedar::Long")
		default:
			return sast.TypeRef("A")
		}
	}
	ents := sast.Entities{"A": sast.Entity{Shape: sast.RecordType{"x": sast.Attribute{Type: sast.TypeRef("X")}}, Tags: sast.TypeRef("Y")}}
	cts := sast.CommonTypes{"X": sast.CommonType{Type: mk("X")}, "Y": sast.CommonType{Type: mk("Y")}}
	acts := sast.Actions{"view": sast.Action{AppliesTo: &sast.AppliesTo{Principals: []sast.EntityTypeRef{"A"}, Resources: []sast.EntityTypeRef{"A"}, Context: sast.RecordType{"c": sast.Attribute{Type: sast.TypeRef("X")}}}}}
	if vrt.Choice("shadow", 3) == 1 {
		cts["Long"] = sast.CommonType{Type: sast.Bool()}
	}
	// the declarations live at top level, in a namespace, or in a nested namespace
	s := &sast.Schema{}
	switch vrt.Choice("namespace", 3) {
	case 0:
		s.Entities, s.CommonTypes, s.Actions = ents, cts, acts
	case 1:
		s.Namespaces = sast.Namespaces{"NS": sast.Namespace{Entities: ents, CommonTypes: cts, Actions: acts}}
	case 2:
		s.Namespaces = sast.Namespaces{"Org::App": sast.Namespace{Entities: ents, CommonTypes: cts, Actions: acts}}
	}
	rs, err := resolved.Resolve(s)
	if err != nil {
		vrt.Cover("C16.commontypes.rejected")
		return
	}
	vrt.Cover("C16.commontypes.resolved")
	c16Exercise(rs)
	vrt.Assert("C16.commontypes.terminated", true)
}

// Action groups: memberOf edges of every shape among three actions (cycles,
// self membership, undefined parents, qualified references).
func VerifC16_ActionGroups() {
	names := []types.String{"view", "group", "other"}
	s := &sast.Schema{Entities: sast.Entities{"A": sast.Entity{}, "B": sast.Entity{}}, Actions: sast.Actions{}}
	for i, n := range names {
		var parents []sast.ParentRef
		for j := range names {
			if vrt.Choice("memberOf", 2) == 1 {
				if (i+j)%2 == 1 {
					parents = append(parents, sast.NewParentRef("Action", names[j])) // qualified reference
				} else {
					parents = append(parents, sast.ParentRefFromID(names[j]))
				}
			}
		}
		if i == 0 && vrt.Choice("undefined-parent", 2) == 1 {
			parents = append(parents, sast.ParentRefFromID("undefined"))
		}
		a := sast.Action{Parents: parents}
		if i == 0 {
			a.AppliesTo = &sast.AppliesTo{Principals: []sast.EntityTypeRef{"A"}, Resources: []sast.EntityTypeRef{"B"}}
		}
		s.Actions[n] = a
	}
	rs, err := resolved.Resolve(s)
	if err != nil {
		vrt.Cover("C16.actions.rejected")
		return
	}
	vrt.Cover("C16.actions.resolved")
	c16Exercise(rs)
	vrt.Assert("C16.actions.terminated", true)
}

// Policies decoded from JSON may carry literal values of every kind in any
// position; the validator must return a verdict for each.
func VerifC16_LiteralKinds() {
	s := &sast.Schema{
		Entities: sast.Entities{"A": sast.Entity{ParentTypes: []sast.EntityTypeRef{"B"}, Shape: sast.RecordType{"x": sast.Attribute{Type: sast.Long()}, "s": sast.Attribute{Type: sast.Set(sast.Long())}}}, "B": sast.Entity{}},
		Actions:  sast.Actions{"view": sast.Action{AppliesTo: &sast.AppliesTo{Principals: []sast.EntityTypeRef{"A"}, Resources: []sast.EntityTypeRef{"B"}, Context: sast.RecordType{"k": sast.Attribute{Type: sast.Long()}}}}},
	}
	rs, err := resolved.Resolve(s)
	vrt.Assert("C16.literals.schema-resolves", err == nil)
	dec, _ := types.NewDecimal(1, 0)
	ip, _ := types.ParseIPAddr("10.0.0.1")
	vals := []types.Value{
		types.NewSet(types.Long(1)), types.NewSet(), types.NewRecord(types.RecordMap{"a": types.Long(1)}), types.Record{},
		dec, ip, types.NewDatetimeFromMillis(0), types.NewDurationFromMillis(0),
		types.NewEntityUID("Nope", "n"), types.NewEntityUID("A", "a"), types.String("s"), types.Long(1), types.True,
		types.NewSet(types.NewSet(types.Long(1)), types.NewRecord(types.RecordMap{"a": types.NewEntityUID("A", "a")})),
	}
	lit := ast.Value(vals[vrt.Choice("value", len(vals))])
	var n ast.Node
	switch vrt.Choice("position", 12) {
	case 0:
		n = lit.Equal(ast.Principal())
	case 1:
		n = ast.Principal().In(lit)
	case 2:
		n = lit.Contains(ast.Long(1))
	case 3:
		n = ast.Principal().Access("s").ContainsAll(lit)
	case 4:
		n = ast.IfThenElse(lit, ast.True(), ast.False())
	case 5:
		n = lit.Access("a").Equal(ast.Long(1))
	case 6:
		n = lit.Has("a")
	case 7:
		n = lit.Like(types.NewPattern(types.Wildcard{}))
	case 8:
		n = ast.ExtensionCall("lessThan", lit, lit)
	case 9:
		n = lit.LessThan(ast.Context().Access("k"))
	case 10:
		n = ast.Set(lit, ast.Long(1)).IsEmpty()
	case 11:
		n = ast.Record(ast.Pairs{{Key: "a", Value: lit}}).Access("a").Equal(lit)
	}
	for _, mode := range []Option{WithStrict(), WithPermissive()} {
		v := New(rs, mode)
		p := &ast.Policy{Effect: ast.EffectPermit, Principal: ast.ScopeTypeAll{}, Action: ast.ScopeTypeAll{}, Resource: ast.ScopeTypeAll{},
			Conditions: []ast.ConditionType{{Condition: ast.ConditionWhen, Body: n.AsIsNode()}}}
		_ = v.Policy("p", p)
	}
	vrt.Cover("C16.literals.checked")
	vrt.Assert("C16.literals.verdict-returned", true)
}

// Extension calls with any arity and unknown names.
func VerifC16_ExtensionArity() {
	s := &sast.Schema{Entities: sast.Entities{"A": sast.Entity{}}, Actions: sast.Actions{"view": sast.Action{AppliesTo: &sast.AppliesTo{Principals: []sast.EntityTypeRef{"A"}, Resources: []sast.EntityTypeRef{"A"}}}}}
	rs, err := resolved.Resolve(s)
	vrt.Assert("C16.ext.schema-resolves", err == nil)
	names := []types.Path{"decimal", "ip", "datetime", "duration", "lessThan", "isIpv4", "isInRange", "offset", "toDate", "toDays", "durationSince", "unknownFn"}
	name := names[vrt.Choice("name", len(names))]
	nargs := vrt.Choice("args", 4)
	args := make([]ast.Node, nargs)
	for i := range args {
		switch vrt.Choice("arg", 3) {
		case 0:
			args[i] = ast.String("1.0")
		case 1:
			args[i] = ast.Long(1)
		default:
			args[i] = ast.Principal()
		}
	}
	n := ast.ExtensionCall(name, args...)
	p := &ast.Policy{Effect: ast.EffectPermit, Principal: ast.ScopeTypeAll{}, Action: ast.ScopeTypeAll{}, Resource: ast.ScopeTypeAll{},
		Conditions: []ast.ConditionType{{Condition: ast.ConditionWhen, Body: n.AsIsNode()}}}
	_ = New(rs).Policy("p", p)
	_ = New(rs, WithPermissive()).Policy("p", p)
	vrt.Cover("C16.ext.checked")
	vrt.Assert("C16.ext.verdict-returned", true)
}
