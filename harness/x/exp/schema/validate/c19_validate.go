//go:build verif

package validate

import (
	"github.com/cedar-policy/cedar-go/internal/vrt"
	"github.com/cedar-policy/cedar-go/x/exp/ast"
)

// C19: validation does not write to the schema, the policy, the entities or the
// request it is given, nor to package state.
func VerifC19_ValidateNoWrite() {
	rs := c15Schema()
	v := New(rs)
	vp := New(rs, WithPermissive())
	pols := []*ast.Policy{
		{Effect: ast.EffectPermit, Principal: ast.ScopeTypeIs{Type: "User"}, Action: ast.ScopeTypeEq{Entity: c15A}, Resource: ast.ScopeTypeIn{Entity: c15F},
			Conditions: []ast.ConditionType{{Condition: ast.ConditionWhen, Body: ast.Principal().Has("born").And(ast.Principal().Access("born").ToDate().Equal(ast.Principal().Access("born"))).AsIsNode()}}},
		{Effect: ast.EffectForbid, Principal: ast.ScopeTypeAll{}, Action: ast.ScopeTypeAll{}, Resource: ast.ScopeTypeAll{},
			Conditions: []ast.ConditionType{{Condition: ast.ConditionUnless, Body: ast.Resource().In(ast.Principal()).Or(ast.Context().Access("k").LessThan(ast.Principal().Access("nums"))).AsIsNode()}}},
	}
	env, req, store := c15Env(vrt.Choice("resource-is-folder", 2) == 1)
	_ = env
	vrt.Freeze(rs, v, vp, pols, req, store)
	vrt.Concurrently(2, func() {
		for _, p := range pols {
			_ = v.Policy("p", p)
			_ = vp.Policy("p", p)
		}
		_ = v.Request(req)
		_ = v.Entities(store)
		_ = vp.Entities(store)
	})
	w := vrt.Writes()
	vrt.Unfreeze()
	vrt.Cover("C19.validate.checked")
	if w != 0 {
		vrt.Tag("native-replay:race")
	}
	vrt.Assert("C19.validate.no-write-to-shared-state", w == 0)
}
