//go:build verif

package validate

import (
	"github.com/cedar-policy/cedar-go/internal/vrt"
	"github.com/cedar-policy/cedar-go/types"
	"github.com/cedar-policy/cedar-go/x/exp/ast"
	sast "github.com/cedar-policy/cedar-go/x/exp/schema/ast"
	"github.com/cedar-policy/cedar-go/x/exp/schema/resolved"
)

// C19: validation does not write to the schema, the policy, the entities or the
// request it is given, nor to package state.
func VerifC19_ValidateNoWrite() {
	rs := c15Schema()
	v := New(rs)
	vp := New(rs, WithPermissive())
	pols := []*ast.Policy{
		{Effect: ast.EffectPermit, Principal: ast.ScopeTypeIs{Type: "User"}, Action: ast.ScopeTypeEq{Entity: c15A}, Resource: ast.ScopeTypeIn{Entity: c15F},
			Conditions: []ast.ConditionType{{Condition: ast.ConditionWhen, Body: ast.Principal().Has("born").And(ast.Principal().Access("born").ToDate().Equal(ast.Principal().Access("born"))).AsIsNode()}}},
		{Effect: ast.EffectForbid, Principal: ast.ScopeTypeAll{}, Action: ast.ScopeTypeAll{}, Resource: ast.ScopeTypeAll{},
			Conditions: []ast.ConditionType{{Condition: ast.ConditionUnless, Body: ast.Resource().In(ast.Principal()).Or(ast.Context().Access("k").LessThan(ast.Principal().Access("nums"))).AsIsNode()}}},
	}
	// an `action in [...]` scope whose entity slice has spare capacity, against a schema with action groups
	grp := &sast.Schema{
		Entities: sast.Entities{"User": sast.Entity{}, "Doc": sast.Entity{}},
		Actions: sast.Actions{
			"readers": sast.Action{}, "writers": sast.Action{},
			"view":    sast.Action{Parents: []sast.ParentRef{sast.ParentRefFromID("readers")}, AppliesTo: &sast.AppliesTo{Principals: []sast.EntityTypeRef{"User"}, Resources: []sast.EntityTypeRef{"Doc"}}},
			"edit":    sast.Action{Parents: []sast.ParentRef{sast.ParentRefFromID("writers"), sast.ParentRefFromID("readers")}, AppliesTo: &sast.AppliesTo{Principals: []sast.EntityTypeRef{"User"}, Resources: []sast.EntityTypeRef{"Doc"}}},
		},
	}
	grs, gerr := resolved.Resolve(grp)
	vrt.Assert("C19.validate.group-schema-resolves", gerr == nil)
	backing := make([]types.EntityUID, 3, 8)
	backing[0], backing[1], backing[2] = types.NewEntityUID("Action", "readers"), types.NewEntityUID("Action", "writers"), types.NewEntityUID("Action", "view")
	nIn := 1 + vrt.Choice("actions-in-scope", 3)
	gpol := &ast.Policy{Effect: ast.EffectPermit, Principal: ast.ScopeTypeAll{}, Action: ast.ScopeTypeInSet{Entities: backing[:nIn]}, Resource: ast.ScopeTypeAll{}}
	gv := New(grs)
	env, req, store := c15Env(vrt.Choice("resource-is-folder", 2) == 1)
	_ = env
	vrt.Freeze(rs, v, vp, pols, req, store, grs, gv, gpol, backing)
	vrt.Concurrently(2, func() {
		_ = gv.Policy("g", gpol)
		for _, p := range pols {
			_ = v.Policy("p", p)
			_ = vp.Policy("p", p)
		}
		_ = v.Request(req)
		_ = v.Entities(store)
		_ = vp.Entities(store)
	})
	w := vrt.Writes()
	vrt.Unfreeze()
	vrt.Cover("C19.validate.checked")
	if w != 0 {
		vrt.Tag("native-replay:race")
	}
	vrt.Assert("C19.validate.no-write-to-shared-state", w == 0)
}
