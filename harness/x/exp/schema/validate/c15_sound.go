//go:build verif

package validate

import (
	"github.com/cedar-policy/cedar-go/internal/eval"
	"github.com/cedar-policy/cedar-go/internal/vrt"
	"github.com/cedar-policy/cedar-go/types"
	"github.com/cedar-policy/cedar-go/x/exp/ast"
	sast "github.com/cedar-policy/cedar-go/x/exp/schema/ast"
	"github.com/cedar-policy/cedar-go/x/exp/schema/resolved"
)

// C15: if the validator accepts a policy, evaluating it on any request and
// entity store that conform to the schema never fails with a type error, an
// arity / unknown-function error, or a missing attribute/tag on a record or a
// present entity.  Expression shapes are selectors (the validator decides which
// are accepted); attribute payloads and presence of optional attributes/tags
// and of referenced entities are symbolic / forked.

func c15Schema() *resolved.Schema {
	userShape := sast.RecordType{
		"age":    sast.Attribute{Type: sast.Long()},
		"name":   sast.Attribute{Type: sast.String()},
		"flag":   sast.Attribute{Type: sast.Bool()},
		"born":   sast.Attribute{Type: sast.Datetime(), Optional: true},
		"nums":   sast.Attribute{Type: sast.Set(sast.Long())},
		"friend": sast.Attribute{Type: sast.EntityTypeRef("User")},
		"nested": sast.Attribute{Type: sast.RecordType{"a": sast.Attribute{Type: sast.Long()}, "b": sast.Attribute{Type: sast.String(), Optional: true}}},
		"dec":    sast.Attribute{Type: sast.Decimal(), Optional: true},
	}
	s := &sast.Schema{
		Entities: sast.Entities{
			"User":   sast.Entity{Shape: userShape, Tags: sast.String()},
			"Doc":    sast.Entity{ParentTypes: []sast.EntityTypeRef{"Folder"}, Shape: sast.RecordType{"owner": sast.Attribute{Type: sast.EntityTypeRef("User")}, "size": sast.Attribute{Type: sast.Long(), Optional: true}}},
			"Folder": sast.Entity{ParentTypes: []sast.EntityTypeRef{"Folder"}, Shape: sast.RecordType{"size": sast.Attribute{Type: sast.Long()}}},
		},
		Actions: sast.Actions{
			"view": sast.Action{AppliesTo: &sast.AppliesTo{Principals: []sast.EntityTypeRef{"User"}, Resources: []sast.EntityTypeRef{"Doc", "Folder"},
				Context: sast.RecordType{"k": sast.Attribute{Type: sast.Long()}, "opt": sast.Attribute{Type: sast.String(), Optional: true},
					"primary":  sast.Attribute{Type: sast.RecordType{"quota": sast.Attribute{Type: sast.Long()}, "extra": sast.Attribute{Type: sast.String()}}},
					"fallback": sast.Attribute{Type: sast.RecordType{"quota": sast.Attribute{Type: sast.Long(), Optional: true}}}}}},
		},
	}
	rs, err := resolved.Resolve(s)
	if err != nil {
		panic("c15: schema does not resolve: " + err.Error())
	}
	return rs
}

var (
	c15U = types.NewEntityUID("User", "u")
	c15V = types.NewEntityUID("User", "v")
	c15D = types.NewEntityUID("Doc", "d")
	c15F = types.NewEntityUID("Folder", "f")
	c15A = types.NewEntityUID("Action", "view")
)

// c15Env builds a request and store that conform to the schema, with symbolic
// payloads and forked presence of everything optional.
func c15Env(resourceIsFolder bool) (eval.Env, types.Request, types.EntityMap) {
	// presence scenario: everything optional present, nothing present, or exactly one thing absent
	nOpt := 11
	nScen := 2 // quick: everything optional present / nothing present
	if vrt.Thorough() && c15WideGuards {
		nScen = nOpt + 2 // ... plus exactly one thing absent
	}
	scen := vrt.Choice("presence-scenario", nScen)
	vrt.Bound("presence-scenarios", nScen)
	optIdx := 0
	present := func(string) bool {
		i := optIdx
		optIdx++
		switch scen {
		case 0:
			return true
		case 1:
			return false
		}
		return i != scen-2
	}
	user := func(uid types.EntityUID, label string) types.Entity {
		attrs := types.RecordMap{
			"age":    types.Long(vrt.Int64(label + ".age")),
			"name":   types.String("n"),
			"flag":   types.Boolean(true),
			"nums":   types.NewSet(types.Long(vrt.Int64(label+".num")), types.Long(3)),
			"friend": c15V,
		}
		nested := types.RecordMap{"a": types.Long(vrt.Int64(label + ".nested.a"))}
		if present(label+".nested.b-present") {
			nested["b"] = types.String("b")
		}
		attrs["nested"] = types.NewRecord(nested)
		if present(label+".born-present") {
			attrs["born"] = types.NewDatetimeFromMillis(vrt.Int64(label + ".born"))
		}
		if present(label+".dec-present") {
			attrs["dec"] = types.Decimal{}
		}
		tags := types.RecordMap{}
		if present(label+".tag-present") {
			tags["t"] = types.String("tv")
		}
		return types.Entity{UID: uid, Attributes: types.NewRecord(attrs), Tags: types.NewRecord(tags)}
	}
	store := types.EntityMap{c15U: user(c15U, "u")}
	if present("friend-present") {
		store[c15V] = user(c15V, "v")
	}
	store[c15F] = types.Entity{UID: c15F, Attributes: types.NewRecord(types.RecordMap{"size": types.Long(vrt.Int64("f.size"))})}
	docAttrs := types.RecordMap{"owner": c15U}
	if present("d.size-present") {
		docAttrs["size"] = types.Long(vrt.Int64("d.size"))
	}
	store[c15D] = types.Entity{UID: c15D, Parents: types.NewEntityUIDSet(c15F), Attributes: types.NewRecord(docAttrs)}
	ctx := types.RecordMap{"k": types.Long(vrt.Int64("context.k")), "primary": types.NewRecord(types.RecordMap{"quota": types.Long(vrt.Int64("context.primary.quota")), "extra": types.String("x")})}
	fb := types.RecordMap{}
	if present("context.fallback.quota-present") {
		fb["quota"] = types.Long(vrt.Int64("context.fallback.quota"))
	}
	ctx["fallback"] = types.NewRecord(fb)
	if present("context.opt-present") {
		ctx["opt"] = types.String("o")
	}
	res := c15D
	if resourceIsFolder {
		res = c15F
	}
	req := types.Request{Principal: c15U, Action: c15A, Resource: res, Context: types.NewRecord(ctx)}
	env := eval.Env{Entities: store, Principal: req.Principal, Action: req.Action, Resource: req.Resource, Context: req.Context}
	return env, req, store
}

// typed leaves
func c15Leaf(label string) ast.Node {
	leaves := []func() ast.Node{
		func() ast.Node { return ast.Principal().Access("age") },
		func() ast.Node { return ast.Principal().Access("name") },
		func() ast.Node { return ast.Principal().Access("flag") },
		func() ast.Node { return ast.Principal().Access("born") },
		func() ast.Node { return ast.Principal().Access("nums") },
		func() ast.Node { return ast.Principal().Access("friend") },
		func() ast.Node { return ast.Principal().Access("friend").Access("age") },
		func() ast.Node { return ast.Principal().Access("nested").Access("b") },
		func() ast.Node { return ast.Principal().Access("nested") },
		func() ast.Node { return ast.Principal().Access("dec") },
		func() ast.Node { return ast.Resource().Access("size") },
		func() ast.Node { return ast.Resource().Access("owner") },
		func() ast.Node { return ast.Context().Access("k") },
		func() ast.Node { return ast.Context().Access("opt") },
		func() ast.Node { return ast.Principal().GetTag(ast.String("t")) },
		func() ast.Node { return ast.Long(vrt.Int64(label + ".long")) },
		func() ast.Node { return ast.String("s") },
		func() ast.Node { return ast.Principal() },
		func() ast.Node { return ast.Resource() },
		func() ast.Node { return ast.ExtensionCall("datetime", ast.String("2024-01-01")) },
	}
	if (!vrt.Thorough() || !c15WideOperands) && c15Narrow {
		narrow := []int{0, 3, 7, 13, 14, 15, 17, 19}
		return leaves[narrow[vrt.Choice(label, len(narrow))]]()
	}
	return leaves[vrt.Choice(label, len(leaves))]()
}

// c15Narrow restricts the next leaf choice to a representative subset in the quick tier.
var c15Narrow bool

// c15Wide (thorough tier only) selects which dimensions take their full range on
// this path: the full product (13 scenarios x 2 modes x 11 guards x 20 operators x
// 20 x 20 leaves) is 4.5 million paths, so the thorough tier runs two families -
// wide operands with the quick guards/scenarios, and wide guards/scenarios with the
// quick operands.
var c15WideOperands, c15WideGuards bool

// guards that can make an optional access safe (or not)
func c15Guard(label string) ast.Node {
	guards := []func() ast.Node{
		func() ast.Node { return ast.True() },
		func() ast.Node { return ast.Principal().Has("born") },
		func() ast.Node { return ast.Principal().Access("nested").Has("b") },
		func() ast.Node { return ast.Resource().Has("size") },
		func() ast.Node { return ast.Context().Has("opt") },
		func() ast.Node { return ast.Principal().HasTag(ast.String("t")) },
		func() ast.Node { return ast.Principal().Has("dec") },
		func() ast.Node { return ast.Not(ast.Principal().Has("born")) },
		func() ast.Node { return ast.Principal().Has("born").Or(ast.Principal().Access("flag")) },
		func() ast.Node { return ast.Resource().Is("Doc") },
		func() ast.Node { return ast.Principal().Has("friend") },
	}
	if !vrt.Thorough() || !c15WideGuards {
		narrow := []int{0, 1, 4, 5}
		return guards[narrow[vrt.Choice(label, len(narrow))]]()
	}
	return guards[vrt.Choice(label, len(guards))]()
}

func c15Check(v *Validator, n ast.Node, strictLabel string) {
	p := &ast.Policy{Effect: ast.EffectPermit, Principal: ast.ScopeTypeAll{}, Action: ast.ScopeTypeAll{}, Resource: ast.ScopeTypeAll{},
		Conditions: []ast.ConditionType{{Condition: ast.ConditionWhen, Body: n.AsIsNode()}}}
	c15CheckPolicy(v, p)
}

func c15CheckPolicy(v *Validator, p *ast.Policy) {
	if v.Policy("p", p) != nil {
		vrt.Cover("C15.rejected")
		return // completeness is not the property
	}
	vrt.Cover("C15.accepted")
	env, req, store := c15Env(vrt.Choice("resource-is-folder", 2) == 1)
	vrt.Assume(v.Request(req) == nil)
	vrt.Assume(v.Entities(store) == nil)
	be := eval.Compile(p)
	_, err := be.Eval(env)
	cls := eval.VErrClass(err)
	if cls != "" {
		vrt.Tag("error-class-" + cls)
	}
	ok := cls == "" || cls == "overflow" || cls == "entity" || cls == "ext"
	vrt.Assert("C15.accepted-policy-does-not-go-wrong", ok)
}

func c15Validator() (*Validator, string) {
	rs := c15Schema()
	if vrt.Choice("mode", 2) == 1 {
		return New(rs, WithPermissive()), "permissive"
	}
	return New(rs, WithStrict()), "strict"
}

var c15BinOps = []func(a, b ast.Node) ast.Node{
	ast.Node.Equal, ast.Node.NotEqual, ast.Node.LessThan, ast.Node.LessThanOrEqual, ast.Node.GreaterThan, ast.Node.GreaterThanOrEqual,
	ast.Node.Add, ast.Node.Subtract, ast.Node.Multiply, ast.Node.And, ast.Node.Or, ast.Node.In, ast.Node.Contains, ast.Node.ContainsAll, ast.Node.ContainsAny,
	ast.Node.GetTag, ast.Node.HasTag,
	func(a, b ast.Node) ast.Node { return a.Offset(b) },
	func(a, b ast.Node) ast.Node { return a.DurationSince(b) },
	func(a, b ast.Node) ast.Node { return a.DecimalLessThan(b) },
}

func c15Family() {
	c15WideOperands, c15WideGuards = false, false
	if vrt.Thorough() {
		if vrt.Choice("family", 2) == 0 {
			c15WideOperands = true
		} else {
			c15WideGuards = true
		}
	}
}

// guard && (leaf op leaf): capabilities must cover exactly the guarded accesses.
func VerifC15_GuardedBinary() {
	c15Family()
	v, mode := c15Validator()
	g := c15Guard("guard")
	ops := c15BinOps
	if !vrt.Thorough() || !c15WideOperands {
		ops = []func(a, b ast.Node) ast.Node{ast.Node.Equal, ast.Node.LessThan, ast.Node.GreaterThanOrEqual, ast.Node.Add, ast.Node.And, ast.Node.In}
	}
	op := ops[vrt.Choice("op", len(ops))]
	c15Narrow = true
	l := c15Leaf("l")
	r := c15Leaf("r")
	c15Narrow = false
	var n ast.Node
	if vrt.Choice("in-condition-of-if", 2) == 1 {
		n = ast.IfThenElse(g, op(l, r), ast.False())
	} else {
		n = g.And(op(l, r))
	}
	c15Check(v, n, mode)
}

var c15UnOps = []func(a ast.Node) ast.Node{
	ast.Not, ast.Negate, ast.Node.IsEmpty,
	func(a ast.Node) ast.Node { return a.Like(types.NewPattern(types.Wildcard{})) },
	func(a ast.Node) ast.Node { return a.Is("User") },
	func(a ast.Node) ast.Node { return a.Has("age") },
	func(a ast.Node) ast.Node { return a.Access("age") },
	func(a ast.Node) ast.Node { return a.ToDate() },
	func(a ast.Node) ast.Node { return a.IsIpv4() },
	func(a ast.Node) ast.Node { return ast.ExtensionCall("decimal", a) },
	func(a ast.Node) ast.Node { return ast.ExtensionCall("decimal", a, a) },
	func(a ast.Node) ast.Node { return ast.ExtensionCall("nope", a) },
}

func VerifC15_GuardedUnary() {
	c15Family()
	v, mode := c15Validator()
	g := c15Guard("guard")
	uops := c15UnOps
	if !vrt.Thorough() || !c15WideOperands {
		uops = []func(a ast.Node) ast.Node{c15UnOps[0], c15UnOps[1], c15UnOps[3], c15UnOps[5], c15UnOps[6], c15UnOps[7], c15UnOps[10]}
	}
	op := uops[vrt.Choice("op", len(uops))]
	c15Narrow = true
	x := op(c15Leaf("x"))
	c15Narrow = false
	var n ast.Node
	switch vrt.Choice("shape", 4) {
	case 0:
		n = g.And(x.Equal(x))
	case 1:
		n = g.Or(x.Equal(x)) // the capability must NOT flow through ||
	case 2:
		n = ast.Not(g).And(x.Equal(x)) // nor through !
	case 3:
		n = ast.IfThenElse(g, ast.True(), x.Equal(x)) // nor into the else branch
	}
	c15Check(v, n, mode)
}

// Joins: the least upper bound of two record / entity types (if-then-else
// branches) must only expose what both sides guarantee.
func VerifC15_Joins() {
	c15WideOperands, c15WideGuards = false, vrt.Thorough()
	v, mode := c15Validator()
	recs := []func() ast.Node{
		func() ast.Node { return ast.Context().Access("primary") },
		func() ast.Node { return ast.Context().Access("fallback") },
		func() ast.Node { return ast.Principal().Access("nested") },
		func() ast.Node { return ast.Record(ast.Pairs{{Key: "quota", Value: ast.Long(1)}}) },
		func() ast.Node { return ast.Principal() },
		func() ast.Node { return ast.Resource() },
		func() ast.Node { return ast.Principal().Access("friend") },
	}
	conds := []func() ast.Node{
		func() ast.Node { return ast.Context().Access("k").LessThan(ast.Long(0)) },
		func() ast.Node { return ast.Principal().Access("flag") },
	}
	attrs := []types.String{"quota", "extra", "a", "b", "size", "age", "owner"}
	if !vrt.Thorough() {
		attrs = []types.String{"quota", "extra", "size", "age"}
		conds = conds[:1]
	}
	c := conds[vrt.Choice("cond", len(conds))]()
	a := recs[vrt.Choice("then", len(recs))]()
	b := recs[vrt.Choice("else", len(recs))]()
	attr := attrs[vrt.Choice("attr", len(attrs))]
	joined := ast.IfThenElse(c, a, b)
	var n ast.Node
	switch vrt.Choice("use", 3) {
	case 0:
		n = joined.Access(attr).Equal(joined.Access(attr))
	case 1:
		n = joined.Has(attr).And(joined.Access(attr).Equal(joined.Access(attr)))
	case 2:
		n = ast.Set(a, b).Contains(a).And(joined.Has(attr))
	}
	c15Check(v, n, mode)
}


// Several clauses: the guard sits in its own when / unless clause, before or after
// the clause that relies on it.  What a clause establishes may only be used by a
// later clause if the clause is a `when` (an `unless { x has a }` holds exactly
// when a is absent), and never by an earlier one.
func VerifC15_Clauses() {
	c15WideOperands, c15WideGuards = false, vrt.Thorough()
	v, _ := c15Validator()
	g := c15Guard("guard")
	accesses := []func() ast.Node{
		func() ast.Node { return ast.Principal().Access("born").Equal(ast.Principal().Access("born")) },
		func() ast.Node { return ast.Context().Access("opt").Equal(ast.String("x")) },
		func() ast.Node { return ast.Principal().GetTag(ast.String("t")).Equal(ast.String("x")) },
		func() ast.Node { return ast.Resource().Access("size").LessThan(ast.Long(3)) },
		func() ast.Node { return ast.Principal().Access("nested").Access("b").Equal(ast.String("x")) },
		func() ast.Node { return ast.Principal().Access("dec").DecimalLessThan(ast.Principal().Access("dec")) },
		// required attributes: accepted whatever the other clause says
		func() ast.Node { return ast.Principal().Access("age").LessThan(ast.Long(3)) },
		func() ast.Node { return ast.Context().Access("k").LessThan(ast.Long(3)) },
	}
	use := accesses[vrt.Choice("access", len(accesses))]()
	kinds := []ast.Condition{ast.ConditionWhen, ast.ConditionUnless}
	gk := kinds[vrt.Choice("guard-clause", 2)]
	uk := kinds[vrt.Choice("use-clause", 2)]
	conds := []ast.ConditionType{{Condition: gk, Body: g.AsIsNode()}, {Condition: uk, Body: use.AsIsNode()}}
	switch vrt.Choice("arrangement", 3) {
	case 1: // use before guard
		conds[0], conds[1] = conds[1], conds[0]
	case 2: // an unrelated clause in between
		conds = []ast.ConditionType{conds[0], {Condition: ast.ConditionWhen, Body: ast.Context().Access("k").LessThan(ast.Long(9)).AsIsNode()}, conds[1]}
	}
	p := &ast.Policy{Effect: ast.EffectPermit, Principal: ast.ScopeTypeAll{}, Action: ast.ScopeTypeAll{}, Resource: ast.ScopeTypeAll{}, Conditions: conds}
	if vrt.Choice("forbid", 2) == 1 {
		p.Effect = ast.EffectForbid
	}
	vrt.Cover("C15.clauses.checked")
	c15CheckPolicy(v, p)
}
