//go:build verif

package batch

import (
	"context"
	"errors"
	"time"

	"github.com/cedar-policy/cedar-go"
	"github.com/cedar-policy/cedar-go/ast"
	"github.com/cedar-policy/cedar-go/internal/vrt"
	"github.com/cedar-policy/cedar-go/types"
)

// C05: batch authorization equals brute-force authorization of every substitution.

var (
	c05E = types.NewEntityUID("T", "e")
	c05P = types.NewEntityUID("T", "p")
	c05X = types.NewEntityUID("U", "x")
	c05A = types.NewEntityUID("Action", "act")
	c05B = types.NewEntityUID("Action", "other")
)

type c05Tpl struct {
	req   Request
	vars  []types.String // in a fixed order
	lists [][]types.Value
	// subst computes the concrete request for a choice of values (independent of cloneSub)
	subst func(vals map[types.String]types.Value) types.Request
	// sparse: use the small policy set in which, for some values, no permit survives
	// partial evaluation while a forbid still applies
	sparse bool
}

// c05PoliciesFor: the policy family for a template.
func c05PoliciesFor(t c05Tpl) *cedar.PolicySet {
	if !t.sparse {
		return c05Policies()
	}
	ps := cedar.NewPolicySet()
	ps.Add("permit-e", cedar.NewPolicyFromAST(ast.Permit().PrincipalEq(c05E)))
	ps.Add("forbid-x", cedar.NewPolicyFromAST(ast.Forbid().ResourceEq(c05X)))
	ps.Add("forbid-p-when", cedar.NewPolicyFromAST(ast.Forbid().ResourceEq(c05P).When(ast.Context().Access("a").Equal(ast.Long(1)))))
	return ps
}

func c05Entities() types.EntityMap {
	return types.EntityMap{
		c05E: types.Entity{UID: c05E, Parents: types.NewEntityUIDSet(c05P)},
		c05P: types.Entity{UID: c05P},
	}
}

func c05Longs(label string, n int) []types.Value {
	out := make([]types.Value, n)
	for i := range out {
		out[i] = types.Long(vrt.Int64(label))
	}
	return out
}

func c05Ents(n int) []types.Value {
	uni := []types.Value{c05E, c05X, c05P}
	return uni[:n]
}

func c05MaxList() int {
	if vrt.Thorough() {
		return 3
	}
	return 2
}

// c05Template returns one request template of the family (selector = program shape).
func c05Template() c05Tpl {
	shape := vrt.Choice("shape", 14)
	n1 := 1 + vrt.Choice("len1", c05MaxList())
	vrt.Bound("value-list-length", c05MaxList())
	get := func(vals map[types.String]types.Value, k types.String) types.Value { return vals[k] }
	baseCtx := types.NewRecord(types.RecordMap{"a": types.Long(1)})
	t := c05Tpl{}
	switch shape {
	case 0: // principal
		t.vars, t.lists = []types.String{"p"}, [][]types.Value{c05Ents(n1)}
		t.req = Request{Principal: Variable("p"), Action: c05A, Resource: c05P, Context: baseCtx}
		t.subst = func(v map[types.String]types.Value) types.Request {
			return types.Request{Principal: get(v, "p").(types.EntityUID), Action: c05A, Resource: c05P, Context: baseCtx}
		}
	case 1: // resource
		t.vars, t.lists = []types.String{"r"}, [][]types.Value{c05Ents(n1)}
		t.req = Request{Principal: c05E, Action: c05A, Resource: Variable("r"), Context: baseCtx}
		t.subst = func(v map[types.String]types.Value) types.Request {
			return types.Request{Principal: c05E, Action: c05A, Resource: get(v, "r").(types.EntityUID), Context: baseCtx}
		}
	case 2: // action
		t.vars, t.lists = []types.String{"act"}, [][]types.Value{[]types.Value{c05A, c05B, types.NewEntityUID("Action", "third")}[:n1]}
		t.req = Request{Principal: c05E, Action: Variable("act"), Resource: c05P, Context: baseCtx}
		t.subst = func(v map[types.String]types.Value) types.Request {
			return types.Request{Principal: c05E, Action: get(v, "act").(types.EntityUID), Resource: c05P, Context: baseCtx}
		}
	case 3: // context field
		t.vars, t.lists = []types.String{"x"}, [][]types.Value{c05Longs("x", n1)}
		t.req = Request{Principal: c05E, Action: c05A, Resource: c05P, Context: types.NewRecord(types.RecordMap{"a": Variable("x"), "b": types.Long(5)})}
		t.subst = func(v map[types.String]types.Value) types.Request {
			return types.Request{Principal: c05E, Action: c05A, Resource: c05P, Context: types.NewRecord(types.RecordMap{"a": get(v, "x"), "b": types.Long(5)})}
		}
	case 4: // same variable twice in one record
		t.vars, t.lists = []types.String{"x"}, [][]types.Value{c05Longs("x", n1)}
		t.req = Request{Principal: c05E, Action: c05A, Resource: c05P, Context: types.NewRecord(types.RecordMap{"a": Variable("x"), "b": Variable("x")})}
		t.subst = func(v map[types.String]types.Value) types.Request {
			return types.Request{Principal: c05E, Action: c05A, Resource: c05P, Context: types.NewRecord(types.RecordMap{"a": get(v, "x"), "b": get(v, "x")})}
		}
	case 5: // record field + set member
		t.vars, t.lists = []types.String{"x"}, [][]types.Value{c05Longs("x", n1)}
		t.req = Request{Principal: c05E, Action: c05A, Resource: c05P, Context: types.NewRecord(types.RecordMap{"a": Variable("x"), "s": types.NewSet(Variable("x"), types.Long(9))})}
		t.subst = func(v map[types.String]types.Value) types.Request {
			return types.Request{Principal: c05E, Action: c05A, Resource: c05P, Context: types.NewRecord(types.RecordMap{"a": get(v, "x"), "s": types.NewSet(get(v, "x"), types.Long(9))})}
		}
	case 6: // nested record, depth 2
		t.vars, t.lists = []types.String{"x"}, [][]types.Value{c05Longs("x", n1)}
		t.req = Request{Principal: c05E, Action: c05A, Resource: c05P, Context: types.NewRecord(types.RecordMap{"a": types.Long(1), "r": types.NewRecord(types.RecordMap{"a": Variable("x")})})}
		t.subst = func(v map[types.String]types.Value) types.Request {
			return types.Request{Principal: c05E, Action: c05A, Resource: c05P, Context: types.NewRecord(types.RecordMap{"a": types.Long(1), "r": types.NewRecord(types.RecordMap{"a": get(v, "x")})})}
		}
	case 7: // two variables: principal and a context field
		n2 := 1 + vrt.Choice("len2", c05MaxList())
		t.vars, t.lists = []types.String{"p", "x"}, [][]types.Value{c05Ents(n1), c05Longs("x", n2)}
		t.req = Request{Principal: Variable("p"), Action: c05A, Resource: c05P, Context: types.NewRecord(types.RecordMap{"a": Variable("x"), "b": types.Long(5)})}
		t.subst = func(v map[types.String]types.Value) types.Request {
			return types.Request{Principal: get(v, "p").(types.EntityUID), Action: c05A, Resource: c05P, Context: types.NewRecord(types.RecordMap{"a": get(v, "x"), "b": types.Long(5)})}
		}
	case 8: // two variables in the context, one of them inside a set
		n2 := 1 + vrt.Choice("len2", c05MaxList())
		t.vars, t.lists = []types.String{"x", "y"}, [][]types.Value{c05Longs("x", n1), c05Longs("y", n2)}
		t.req = Request{Principal: c05E, Action: c05A, Resource: c05P, Context: types.NewRecord(types.RecordMap{"a": Variable("x"), "b": Variable("y"), "s": types.NewSet(Variable("y"))})}
		t.subst = func(v map[types.String]types.Value) types.Request {
			return types.Request{Principal: c05E, Action: c05A, Resource: c05P, Context: types.NewRecord(types.RecordMap{"a": get(v, "x"), "b": get(v, "y"), "s": types.NewSet(get(v, "y"))})}
		}
	case 9: // one variable in two request parts: principal and a context field
		t.vars, t.lists = []types.String{"p"}, [][]types.Value{c05Ents(n1)}
		t.req = Request{Principal: Variable("p"), Action: c05A, Resource: c05P, Context: types.NewRecord(types.RecordMap{"a": types.Long(1), "who": Variable("p")})}
		t.subst = func(v map[types.String]types.Value) types.Request {
			return types.Request{Principal: get(v, "p").(types.EntityUID), Action: c05A, Resource: c05P, Context: types.NewRecord(types.RecordMap{"a": types.Long(1), "who": get(v, "p")})}
		}
	case 10: // one variable in three parts: principal, resource and a set in the context
		t.vars, t.lists = []types.String{"e"}, [][]types.Value{c05Ents(n1)}
		t.req = Request{Principal: Variable("e"), Action: c05A, Resource: Variable("e"), Context: types.NewRecord(types.RecordMap{"a": types.Long(1), "who": Variable("e"), "s": types.NewSet(Variable("e"), types.Long(9))})}
		t.subst = func(v map[types.String]types.Value) types.Request {
			return types.Request{Principal: get(v, "e").(types.EntityUID), Action: c05A, Resource: get(v, "e").(types.EntityUID), Context: types.NewRecord(types.RecordMap{"a": types.Long(1), "who": get(v, "e"), "s": types.NewSet(get(v, "e"), types.Long(9))})}
		}
	case 11: // action and context share a variable; a second variable only in the resource
		n2 := 1 + vrt.Choice("len2", c05MaxList())
		t.vars, t.lists = []types.String{"act", "r"}, [][]types.Value{[]types.Value{c05A, c05B, types.NewEntityUID("Action", "third")}[:n1], c05Ents(n2)}
		t.req = Request{Principal: c05E, Action: Variable("act"), Resource: Variable("r"), Context: types.NewRecord(types.RecordMap{"a": types.Long(1), "who": Variable("act")})}
		t.subst = func(v map[types.String]types.Value) types.Request {
			return types.Request{Principal: c05E, Action: get(v, "act").(types.EntityUID), Resource: get(v, "r").(types.EntityUID), Context: types.NewRecord(types.RecordMap{"a": types.Long(1), "who": get(v, "act")})}
		}
	case 12: // forbid-only residuals: two variables, permits pruned by the first one
		n2 := 1 + vrt.Choice("len2", c05MaxList())
		t.sparse = true
		t.vars, t.lists = []types.String{"p", "r"}, [][]types.Value{[]types.Value{c05X, c05E, c05P}[:n1], []types.Value{c05X, c05P, c05E}[:n2]}
		t.req = Request{Principal: Variable("p"), Action: c05A, Resource: Variable("r"), Context: baseCtx}
		t.subst = func(v map[types.String]types.Value) types.Request {
			return types.Request{Principal: get(v, "p").(types.EntityUID), Action: c05A, Resource: get(v, "r").(types.EntityUID), Context: baseCtx}
		}
	case 13: // forbid-only policy set seen through one variable with several values
		t.sparse = true
		t.vars, t.lists = []types.String{"r"}, [][]types.Value{[]types.Value{c05X, c05P, c05E}[:n1]}
		t.req = Request{Principal: c05X, Action: c05A, Resource: Variable("r"), Context: baseCtx}
		t.subst = func(v map[types.String]types.Value) types.Request {
			return types.Request{Principal: c05X, Action: c05A, Resource: get(v, "r").(types.EntityUID), Context: baseCtx}
		}
	}
	t.req.Variables = Variables{}
	for i, k := range t.vars {
		t.req.Variables[k] = t.lists[i]
	}
	return t
}

// c05Policies: a small family reading exactly the templated positions.
func c05Policies() *cedar.PolicySet {
	c := vrt.Int64("policy-const")
	ps := cedar.NewPolicySet()
	ps.Add("scope-eq", cedar.NewPolicyFromAST(ast.Permit().PrincipalEq(c05E).When(ast.Context().Access("a").LessThan(ast.Long(c)))))
	ps.Add("same-fields", cedar.NewPolicyFromAST(ast.Permit().When(ast.Context().Access("a").Equal(ast.Context().Access("b")))))
	ps.Add("set-member", cedar.NewPolicyFromAST(ast.Forbid().When(ast.Context().Access("s").Contains(ast.Long(c)))))
	ps.Add("nested", cedar.NewPolicyFromAST(ast.Permit().ResourceIn(c05P).When(ast.Context().Access("r").Access("a").Equal(ast.Long(c)))))
	ps.Add("action", cedar.NewPolicyFromAST(ast.Forbid().ActionEq(c05B).PrincipalIn(c05P)))
	ps.Add("who-is-principal", cedar.NewPolicyFromAST(ast.Permit().When(ast.Context().Has("who").And(ast.Context().Access("who").Equal(ast.Principal())))))
	ps.Add("who-is-action", cedar.NewPolicyFromAST(ast.Forbid().When(ast.Context().Has("who").And(ast.Context().Access("who").Equal(ast.Action())).And(ast.Resource().Equal(ast.Value(c05X))))))
	return ps
}

type c05Seen struct {
	res Result
}

func c05ReasonSet(d types.Diagnostic) map[types.PolicyID]bool {
	m := map[types.PolicyID]bool{}
	for _, r := range d.Reasons {
		m[r.PolicyID] = true
	}
	return m
}

func c05SameSet(a, b map[types.PolicyID]bool) bool {
	if len(a) != len(b) {
		return false
	}
	for k := range a {
		if !b[k] {
			return false
		}
	}
	return true
}

func VerifC05_Equivalence() {
	t := c05Template()
	ps := c05PoliciesFor(t)
	ents := c05Entities()
	var seen []Result
	err := Authorize(context.Background(), ps, ents, t.req, func(r Result) error {
		// Result.Values is only valid during the callback (the enumerator reuses the map), so copy it
		vals := Values{}
		for k, v := range r.Values {
			vals[k] = v
		}
		r.Values = vals
		seen = append(seen, r)
		return nil
	})
	vrt.Assert("C05.noerr", err == nil)
	product := 1
	for _, l := range t.lists {
		product *= len(l)
	}
	vrt.Cover("C05.enumerated")
	vrt.Assert("C05.callback-count", len(seen) == product)
	for _, r := range seen {
		// the substitution reported is drawn from the lists
		vrt.Assert("C05.values.complete", len(r.Values) == len(t.vars))
		for i, k := range t.vars {
			in := false
			for _, cand := range t.lists[i] {
				in = vrt.Or(in, r.Values[k].Equal(cand))
			}
			vrt.Assert("C05.values.from-list", in)
		}
		// the request is the template with that substitution applied
		want := t.subst(r.Values)
		vrt.Assert("C05.request.substituted", r.Request.Equal(want))
		// decision and reason set equal the ordinary authorizer's
		dec, diag := cedar.Authorize(ps, ents, r.Request)
		vrt.Assert("C05.decision", r.Decision == dec)
		vrt.Assert("C05.reasons", c05SameSet(c05ReasonSet(r.Diagnostic), c05ReasonSet(diag)))
		vrt.Assert("C05.errors.count", len(r.Diagnostic.Errors) == len(diag.Errors))
		// ... and also for the independently substituted request
		dec2, diag2 := cedar.Authorize(ps, ents, want)
		vrt.Assert("C05.decision.vs-substituted", r.Decision == dec2)
		vrt.Assert("C05.reasons.vs-substituted", c05SameSet(c05ReasonSet(r.Diagnostic), c05ReasonSet(diag2)))
	}
	// every element of the Cartesian product occurs
	idx := make([]int, len(t.lists))
	for {
		found := false
		for _, r := range seen {
			all := true
			for i, k := range t.vars {
				all = vrt.And(all, r.Values[k].Equal(t.lists[i][idx[i]]))
			}
			found = vrt.Or(found, all)
		}
		vrt.Assert("C05.product.covered", found)
		j := 0
		for j < len(idx) {
			idx[j]++
			if idx[j] < len(t.lists[j]) {
				break
			}
			idx[j] = 0
			j++
		}
		if j == len(idx) {
			break
		}
	}
}

var errC05Callback = errors.New("callback failed")

func VerifC05_CallbackFailure() {
	t := c05Template()
	ps := c05PoliciesFor(t)
	product := 1
	for _, l := range t.lists {
		product *= len(l)
	}
	k := vrt.Choice("fail-at", product)
	calls := 0
	err := Authorize(context.Background(), ps, c05Entities(), t.req, func(r Result) error {
		calls++
		if calls-1 == k {
			return errC05Callback
		}
		return nil
	})
	vrt.Cover("C05.callback-failure")
	vrt.Assert("C05.callback-failure.stops", calls == k+1)
	vrt.Assert("C05.callback-failure.returned", err != nil && errors.Is(err, errC05Callback))
}

type c05Ctx struct {
	okCalls int
	calls   int
}

func (c *c05Ctx) Deadline() (time.Time, bool) { return time.Time{}, false }
func (c *c05Ctx) Done() <-chan struct{}        { return nil }
func (c *c05Ctx) Value(key any) any            { return nil }
func (c *c05Ctx) Err() error {
	c.calls++
	if c.calls > c.okCalls {
		return context.Canceled
	}
	return nil
}

func VerifC05_ContextCancel() {
	t := c05Template()
	ps := c05PoliciesFor(t)
	ctx := &c05Ctx{okCalls: vrt.Choice("cancel-after", 6)}
	cancelledAt := -1
	calls := 0
	err := Authorize(ctx, ps, c05Entities(), t.req, func(r Result) error {
		if ctx.calls > ctx.okCalls && cancelledAt < 0 {
			cancelledAt = calls
		}
		calls++
		return nil
	})
	product := 1
	for _, l := range t.lists {
		product *= len(l)
	}
	if ctx.calls > ctx.okCalls {
		vrt.Cover("C05.cancel.observed")
		vrt.Assert("C05.cancel.error", err != nil && errors.Is(err, context.Canceled))
		// once Err() has reported cancellation no further callback is made
		vrt.Assert("C05.cancel.stops", cancelledAt < 0)
	} else {
		vrt.Cover("C05.cancel.not-reached")
		vrt.Assert("C05.cancel.complete", err == nil && calls == product)
	}
}

// Unbound / unused variables are rejected; an empty list yields no callbacks.
func VerifC05_VarErrors() {
	base := types.NewRecord(types.RecordMap{"a": Variable("x")})
	calls := 0
	cb := func(Result) error { calls++; return nil }
	switch vrt.Choice("case", 3) {
	case 0:
		err := Authorize(context.Background(), c05Policies(), nil, Request{Principal: c05E, Action: c05A, Resource: c05P, Context: base, Variables: Variables{}}, cb)
		vrt.Cover("C05.unbound")
		vrt.Assert("C05.unbound.error", err != nil && calls == 0)
	case 1:
		err := Authorize(context.Background(), c05Policies(), nil, Request{Principal: c05E, Action: c05A, Resource: c05P, Context: base,
			Variables: Variables{"x": {types.Long(1)}, "unused": {types.Long(2)}}}, cb)
		vrt.Cover("C05.unused")
		vrt.Assert("C05.unused.error", err != nil && calls == 0)
	case 2:
		err := Authorize(context.Background(), c05Policies(), nil, Request{Principal: c05E, Action: c05A, Resource: c05P, Context: base,
			Variables: Variables{"x": {}}}, cb)
		vrt.Cover("C05.empty-list")
		vrt.Assert("C05.empty-list.no-callbacks", err == nil && calls == 0)
	}
}
