//go:build verif

package batch

import (
	"context"

	"github.com/cedar-policy/cedar-go/internal/vrt"
	"github.com/cedar-policy/cedar-go/types"
)

// C19: batch authorization does not write to its inputs or to package state.
func VerifC19_BatchNoWrite() {
	t := c05Template()
	ps := c05PoliciesFor(t)
	ents := c05Entities()
	vrt.Freeze(ps, ents, t.req)
	var err error
	vrt.Concurrently(2, func() {
		e := Authorize(context.Background(), ps, ents, t.req, func(r Result) error { return nil })
		if e != nil {
			err = e
		}
	})
	w := vrt.Writes()
	vrt.Unfreeze()
	vrt.Cover("C19.batch.checked")
	vrt.Assert("C19.batch.noerr", err == nil)
	if w != 0 {
		vrt.Tag("native-replay:race")
	}
	vrt.Assert("C19.batch.no-write-to-shared-state", w == 0)
	// the template still contains its variables
	_, isVar := t.req.Variables[t.vars[0]]
	vrt.Assert("C19.batch.template-unchanged", isVar && len(t.req.Variables) == len(t.vars))
	_ = types.Record{}
}
