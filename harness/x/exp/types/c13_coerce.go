//go:build verif

package exptypes

import (
	"encoding/json"

	"github.com/cedar-policy/cedar-go/internal/vrt"
	"github.com/cedar-policy/cedar-go/types"
	sast "github.com/cedar-policy/cedar-go/x/exp/schema/ast"
	"github.com/cedar-policy/cedar-go/x/exp/schema/resolved"
)

// C13 (schema-guided coercion): with a schema, the implicit spellings of entity
// references ({"type","id"} objects) and extension values (bare strings) decode
// to the same entities as the explicit __entity / __extn escapes, at every
// position the schema types (attribute, set element, nested record, tag), and
// positions the schema does not type as such are left alone.  The JSON layer is
// the executor's model of encoding/json (see types/c13_stubcases.go).

func c13Schema() *resolved.Schema {
	s := &sast.Schema{
		Entities: sast.Entities{
			"User": sast.Entity{},
			"Doc": sast.Entity{
				ParentTypes: []sast.EntityTypeRef{"Folder"},
				Shape: sast.RecordType{
					"owner":   sast.Attribute{Type: sast.EntityTypeRef("User"), Optional: true},
					"price":   sast.Attribute{Type: sast.Decimal(), Optional: true},
					"ttl":     sast.Attribute{Type: sast.Duration(), Optional: true},
					"readers": sast.Attribute{Type: sast.Set(sast.EntityTypeRef("User")), Optional: true},
					"meta":    sast.Attribute{Type: sast.RecordType{"by": sast.Attribute{Type: sast.EntityTypeRef("User"), Optional: true}, "note": sast.Attribute{Type: sast.String(), Optional: true}}, Optional: true},
					"label":   sast.Attribute{Type: sast.String(), Optional: true},
					"plain":   sast.Attribute{Type: sast.RecordType{"type": sast.Attribute{Type: sast.String()}, "id": sast.Attribute{Type: sast.String()}}, Optional: true},
					"groups":  sast.Attribute{Type: sast.Set(sast.RecordType{"info": sast.Attribute{Type: sast.RecordType{"owner": sast.Attribute{Type: sast.EntityTypeRef("User")}, "limit": sast.Attribute{Type: sast.Decimal(), Optional: true}}}}), Optional: true},
					"nets":    sast.Attribute{Type: sast.Set(sast.RecordType{"ranges": sast.Attribute{Type: sast.Set(sast.Duration())}}), Optional: true},
				},
				Tags: sast.Decimal(),
			},
			"Folder": sast.Entity{},
		},
	}
	rs, err := resolved.Resolve(s)
	vrt.Assume(err == nil)
	return rs
}

func c13Cat(parts ...any) []byte {
	var out []byte
	for _, p := range parts {
		switch x := p.(type) {
		case string:
			out = append(out, x...)
		case []byte:
			out = append(out, x...)
		}
	}
	return out
}

func VerifC13_SchemaCoercion() {
	rs := c13Schema()
	r := vrt.Rune("id-rune")
	if vrt.Thorough() {
		vrt.Assume(vrt.And(r >= 0, r <= 0x10FFFF))
		vrt.Assume(vrt.Or(r < 0xD800, r > 0xDFFF))
	} else {
		vrt.Assume(vrt.And(r >= 0, r < 0x80))
		vrt.Bound("symbolic-rune-below-0x80-in-quick", 0x80)
	}
	id := "u" + string(r)
	qid, _ := json.Marshal(id)
	imp := c13Cat(`{"type":"User","id":`, qid, `}`)
	exp := c13Cat(`{"__entity":{"type":"User","id":`, qid, `}}`)
	uid := types.NewEntityUID("User", types.String(id))
	var attrsImp, attrsExp []byte
	var want types.Value
	var key types.String
	tagsImp, tagsExp := []byte(`{}`), []byte(`{}`)
	var wantTag types.Value
	switch vrt.Choice("position", 10) {
	case 8: // entity reference two records deep inside a set element
		key, want = "groups", types.NewSet(types.NewRecord(types.RecordMap{"info": types.NewRecord(types.RecordMap{"owner": uid})}))
		attrsImp = c13Cat(`{"groups":[{"info":{"owner":`, imp, `}}]}`)
		attrsExp = c13Cat(`{"groups":[{"info":{"owner":`, exp, `}}]}`)
	case 9: // extension strings in a set inside a record inside a set
		d1, _ := types.ParseDuration("1h")
		d2, _ := types.ParseDuration("2m")
		key, want = "nets", types.NewSet(types.NewRecord(types.RecordMap{"ranges": types.NewSet(d1, d2)}))
		attrsImp = []byte(`{"nets":[{"ranges":["1h","2m"]}]}`)
		attrsExp = []byte(`{"nets":[{"ranges":[{"__extn":{"fn":"duration","arg":"1h"}},{"__extn":{"fn":"duration","arg":"2m"}}]}]}`)
	case 0: // attribute of entity type
		key, want = "owner", uid
		attrsImp, attrsExp = c13Cat(`{"owner":`, imp, `}`), c13Cat(`{"owner":`, exp, `}`)
	case 1: // set element
		key, want = "readers", types.NewSet(uid, types.NewEntityUID("User", "fixed"))
		attrsImp = c13Cat(`{"readers":[`, imp, `,{"type":"User","id":"fixed"}]}`)
		attrsExp = c13Cat(`{"readers":[`, exp, `,{"__entity":{"type":"User","id":"fixed"}}]}`)
	case 2: // nested record member
		key, want = "meta", types.NewRecord(types.RecordMap{"by": uid, "note": types.String("n")})
		attrsImp = c13Cat(`{"meta":{"by":`, imp, `,"note":"n"}}`)
		attrsExp = c13Cat(`{"meta":{"by":`, exp, `,"note":"n"}}`)
	case 3: // decimal attribute: bare string with symbolic digits
		d := vrt.Bytes("digits", 3)
		for _, c := range d {
			vrt.Assume(vrt.And(c >= '0', c <= '9'))
		}
		arg := c13Cat(d[:1], ".", d[1:])
		ref, err := types.ParseDecimal(string(arg))
		vrt.Assume(err == nil)
		key, want = "price", ref
		attrsImp = c13Cat(`{"price":"`, arg, `"}`)
		attrsExp = c13Cat(`{"price":{"__extn":{"fn":"decimal","arg":"`, arg, `"}}}`)
	case 4: // duration attribute
		d := vrt.Bytes("digits", 2)
		for _, c := range d {
			vrt.Assume(vrt.And(c >= '0', c <= '9'))
		}
		arg := c13Cat(d, []string{"ms", "s", "h"}[vrt.Choice("unit", 3)])
		ref, err := types.ParseDuration(string(arg))
		vrt.Assume(err == nil)
		key, want = "ttl", ref
		attrsImp = c13Cat(`{"ttl":"`, arg, `"}`)
		attrsExp = c13Cat(`{"ttl":{"__extn":{"fn":"duration","arg":"`, arg, `"}}}`)
	case 5: // tags are typed decimal
		key, want = "label", types.String("l")
		attrsImp, attrsExp = []byte(`{"label":"l"}`), []byte(`{"label":"l"}`)
		tagsImp = []byte(`{"t":"1.5"}`)
		tagsExp = []byte(`{"t":{"__extn":{"fn":"decimal","arg":"1.5"}}}`)
		wantTag, _ = types.ParseDecimal("1.5")
	case 6: // a String attribute that merely looks like a decimal / an entity is left alone
		key, want = "label", types.String("1.5")
		attrsImp, attrsExp = []byte(`{"label":"1.5"}`), []byte(`{"label":"1.5"}`)
	case 7: // a record typed {type: String, id: String} is not an entity reference
		key, want = "plain", types.NewRecord(types.RecordMap{"type": types.String("User"), "id": types.String(id)})
		attrsImp, attrsExp = c13Cat(`{"plain":`, imp, `}`), c13Cat(`{"plain":`, imp, `}`)
	}
	docOf := func(attrs, tags []byte) []byte {
		return c13Cat(`[{"uid":{"type":"Doc","id":"d"},"parents":[{"type":"Folder","id":"f"}],"attrs":`, attrs, `,"tags":`, tags, `},{"uid":{"type":"Folder","id":"f"},"parents":[],"attrs":{},"tags":{}},{"uid":{"type":"User","id":"fixed"},"parents":[],"attrs":{},"tags":{}}]`)
	}
	var a, b EntityMap
	ea := a.UnmarshalJSONWithSchema(docOf(attrsImp, tagsImp), rs)
	eb := b.UnmarshalJSONWithSchema(docOf(attrsExp, tagsExp), rs)
	vrt.Cover("C13.coercion.checked")
	vrt.Assert("C13.coercion.implicit-accepted", ea == nil)
	vrt.Assert("C13.coercion.explicit-accepted", eb == nil)
	doc := types.NewEntityUID("Doc", "d")
	ga, oka := a[doc]
	gb, okb := b[doc]
	vrt.Assert("C13.coercion.entity-present", oka && okb)
	vrt.Assert("C13.coercion.spellings-equal", ga.Equal(gb))
	got, ok := ga.Attributes.Get(key)
	vrt.Assert("C13.coercion.attribute-value", ok && got.Equal(want))
	if wantTag != nil {
		gt, ok := ga.Tags.Get("t")
		vrt.Assert("C13.coercion.tag-value", ok && gt.Equal(wantTag))
	}
	vrt.Assert("C13.coercion.parents", ga.Parents.Contains(types.NewEntityUID("Folder", "f")))
	// single-entity entry point agrees
	var e Entity
	ee := e.UnmarshalJSONWithSchema(c13Cat(`{"uid":{"type":"Doc","id":"d"},"parents":[],"attrs":`, attrsImp, `,"tags":`, tagsImp, `}`), rs)
	vrt.Assert("C13.coercion.single-accepted", ee == nil)
	g1, ok1 := types.Entity(e).Attributes.Get(key)
	vrt.Assert("C13.coercion.single-value", ok1 && g1.Equal(want))
}
