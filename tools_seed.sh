#!/bin/bash
# tools_seed.sh <ID> <worktree> <demo-test-path-relative-to-worktree> <go-package-pattern> [variant]
# Confirms a seeded breaking change independently, stores it under /verif/seeded/<ID>[-variant]/, and runs the check against it.
set -u
export GOFLAGS=-mod=mod GOPROXY=off GOSUMDB=off GOTOOLCHAIN=local
ID=$1; WT=$2; DEMO=$3; PKG=$4; VAR=${5:-}
OUT=/verif/seeded/$ID$VAR
mkdir -p $OUT
cd $WT || exit 1
git diff -- . ":!*zz_demo_test.go" > $OUT/patch.diff
cp $DEMO $OUT/$(basename $DEMO)
echo "== build"; go build ./... && echo BUILD-OK
echo "== existing suite with the change (demo skipped)"
go test -count=1 -skip 'TestDemo' ./... 2>&1 | grep -v "^ok\|no test files" | head -5; SUITE=${PIPESTATUS[0]}
echo "suite exit=$SUITE"
echo "== demo with the change (must fail)"
go test -count=1 -run "TestDemo$ID" $PKG > $OUT/demo_with_change.txt 2>&1; W=$?
echo "demo-with-change exit=$W"
git apply -R $OUT/patch.diff
echo "== demo without the change (must pass)"
go test -count=1 -run "TestDemo$ID" $PKG > $OUT/demo_without_change.txt 2>&1; WO=$?
echo "demo-without-change exit=$WO"
git apply $OUT/patch.diff
echo "== check against the change"
# the patch must apply to /repo's current tree; the check itself is pointed at the
# scratch worktree (same tree + patch) through VERIF_REPO so that long runs against
# /repo going on in the background are not disturbed
git -C /repo apply --check $OUT/patch.diff || { echo "PATCH DOES NOT APPLY TO /repo"; exit 1; }
mv $WT/$DEMO /var/tmp/$(basename $DEMO).$$ 2>/dev/null
cd /verif && VERIF_REPO=$WT VERIF_DIR=/verif timeout 1500 ./bin/vcheck run ${ID:0:3} > $OUT/check_output.txt 2>&1; C=$?
mv /var/tmp/$(basename $DEMO).$$ $WT/$DEMO 2>/dev/null
echo "check exit=$C"; grep -c "^VIOLATION" $OUT/check_output.txt
head -3 $OUT/check_output.txt | cut -c1-250
echo "{\"suite_exit\": $SUITE, \"demo_with_change_exit\": $W, \"demo_without_change_exit\": $WO, \"check_exit\": $C}" > $OUT/verify.json
