// vcheck drives the solver-based checks: it rebuilds the SSA of /repo's current
// working tree with the harness overlay, symbolically executes the harnesses of
// one property, replays solver models natively, and writes the evidence file.
package main

import (
	"encoding/json"
	"flag"
	"fmt"
	"go/types"
	"os"
	"os/exec"
	"path/filepath"
	"regexp"
	"runtime"
	"runtime/debug"
	"runtime/pprof"
	"sort"
	"strings"
	"time"

	"golang.org/x/tools/go/packages"
	"golang.org/x/tools/go/ssa"
	"golang.org/x/tools/go/ssa/ssautil"

	"verif/engine/interp"
)

var (
	repoDir  = envOr("VERIF_REPO", "/repo")
	verifDir = envOr("VERIF_DIR", "/verif")
)

func envOr(k, d string) string {
	if v := os.Getenv(k); v != "" {
		return v
	}
	return d
}

func main() {
	debug.SetGCPercent(400)
	if pf := os.Getenv("VERIF_PROF"); pf != "" {
		f, _ := os.Create(pf)
		pprof.StartCPUProfile(f)
		defer pprof.StopCPUProfile()
	}
	if len(os.Args) < 2 {
		usage()
	}
	switch os.Args[1] {
	case "run":
		rc := cmdRun(os.Args[2:])
		pprof.StopCPUProfile()
		os.Exit(rc)
	case "replay":
		os.Exit(cmdReplay(os.Args[2:]))
	default:
		usage()
	}
}

func usage() {
	fmt.Fprintln(os.Stderr, "usage: vcheck run <PROPERTY> [--tier quick|thorough] [--only regex] [--workers n] | vcheck replay <file>")
	os.Exit(2)
}

func goEnv() []string {
	env := os.Environ()
	env = append(env, "GOFLAGS=-mod=mod", "GOPROXY=off", "GOSUMDB=off", "GOTOOLCHAIN=local")
	return env
}

func modulePath() string {
	b, err := os.ReadFile(filepath.Join(repoDir, "go.mod"))
	if err != nil {
		fatal("cannot read go.mod: %v", err)
	}
	for _, ln := range strings.Split(string(b), "\n") {
		if strings.HasPrefix(ln, "module ") {
			return strings.TrimSpace(strings.TrimPrefix(ln, "module "))
		}
	}
	fatal("no module line in go.mod")
	return ""
}

func fatal(f string, a ...interface{}) {
	fmt.Fprintf(os.Stderr, "vcheck: "+f+"\n", a...)
	os.Exit(2)
}

// harnessFile is one overlay source.
type harnessFile struct {
	pkgDir  string // relative package dir in the repo ("." for root)
	src     string // absolute path under /verif/harness
	virtual string // absolute path under /repo
}

// collectHarness lists every harness source; files are overlaid as zz_verif_<name>.
func collectHarness() []harnessFile {
	var out []harnessFile
	root := filepath.Join(verifDir, "harness")
	filepath.Walk(root, func(p string, info os.FileInfo, err error) error {
		if err != nil || info.IsDir() || !strings.HasSuffix(p, ".go") {
			return nil
		}
		rel, _ := filepath.Rel(root, p)
		dir := filepath.Dir(rel)
		if dir == "vrt" {
			out = append(out, harnessFile{pkgDir: "internal/vrt", src: p, virtual: filepath.Join(repoDir, "internal/vrt", filepath.Base(p))})
			return nil
		}
		if strings.HasPrefix(dir, "root") {
			dir = "." + strings.TrimPrefix(dir, "root")
		}
		out = append(out, harnessFile{pkgDir: dir, src: p, virtual: filepath.Join(repoDir, dir, "zz_verif_"+filepath.Base(p))})
		return nil
	})
	return out
}

var harnessFuncRe = regexp.MustCompile(`(?m)^func (Verif(C[0-9]+)_[A-Za-z0-9_]+)\(\)`)

type harnessRef struct {
	pkgDir string
	name   string
}

func findHarnesses(files []harnessFile, prop string, only *regexp.Regexp) []harnessRef {
	var out []harnessRef
	for _, f := range files {
		b, err := os.ReadFile(f.src)
		if err != nil {
			continue
		}
		for _, m := range harnessFuncRe.FindAllStringSubmatch(string(b), -1) {
			if m[2] != prop {
				continue
			}
			if only != nil && !only.MatchString(m[1]) {
				continue
			}
			out = append(out, harnessRef{pkgDir: f.pkgDir, name: m[1]})
		}
	}
	sort.Slice(out, func(i, j int) bool { return out[i].name < out[j].name })
	return out
}

func loadProgram(files []harnessFile, pkgDirs []string) (*ssa.Program, map[string]*ssa.Package) {
	overlay := map[string][]byte{}
	need := map[string]bool{}
	for _, d := range pkgDirs {
		need[d] = true
	}
	for _, f := range files {
		b, err := os.ReadFile(f.src)
		if err != nil {
			fatal("read %s: %v", f.src, err)
		}
		overlay[f.virtual] = b
	}
	var patterns []string
	for _, d := range pkgDirs {
		if d == "." {
			patterns = append(patterns, ".")
		} else {
			patterns = append(patterns, "./"+d)
		}
	}
	cfg := &packages.Config{Mode: packages.LoadAllSyntax, Dir: repoDir, Overlay: overlay, Env: goEnv(), BuildFlags: []string{"-tags=verif"}}
	pkgs, err := packages.Load(cfg, patterns...)
	if err != nil {
		fatal("packages.Load: %v", err)
	}
	if packages.PrintErrors(pkgs) > 0 {
		fatal("the repository (with the harness overlay) does not type-check")
	}
	prog, spkgs := ssautil.AllPackages(pkgs, ssa.InstantiateGenerics)
	prog.Build()
	byDir := map[string]*ssa.Package{}
	for i, p := range pkgs {
		for _, d := range pkgDirs {
			full := filepath.Join(repoDir, d)
			if len(p.GoFiles) > 0 && filepath.Dir(p.GoFiles[0]) == filepath.Clean(full) {
				byDir[d] = spkgs[i]
			}
		}
	}
	return prog, byDir
}

type tierCfg struct {
	queryMs, feasMs, maxPaths, maxDepth, harnessSec int
	maxSteps                            int64
}

var tiers = map[string]tierCfg{
	"quick":    {queryMs: 45000, feasMs: 4000, maxPaths: 40000, maxDepth: 400, maxSteps: 3000000, harnessSec: 600},
	"thorough": {queryMs: 120000, feasMs: 5000, maxPaths: 600000, maxDepth: 400, maxSteps: 6000000, harnessSec: 2400},
}

func cmdRun(args []string) int {
	fs := flag.NewFlagSet("run", flag.ExitOnError)
	tier := fs.String("tier", envOr("VERIF_TIER", "quick"), "quick|thorough")
	only := fs.String("only", "", "regexp on harness names")
	workers := fs.Int("workers", 0, "workers (default: cores)")
	noReplay := fs.Bool("no-replay", false, "skip native replays (debugging only; never registered)")
	verbose := fs.Bool("v", false, "verbose")
	if len(args) < 1 {
		usage()
	}
	prop := args[0]
	fs.Parse(args[1:])
	tc, ok := tiers[*tier]
	if !ok {
		fatal("unknown tier %q", *tier)
	}
	seed := int64(0)
	if s := os.Getenv("VERIF_SEED"); s != "" {
		fmt.Sscan(s, &seed)
	}
	nw := *workers
	if nw <= 0 {
		nw = runtime.NumCPU()
	}
	t0 := time.Now()
	var onlyRe *regexp.Regexp
	if *only != "" {
		onlyRe = regexp.MustCompile(*only)
	}
	files := collectHarness()
	hs := findHarnesses(files, prop, onlyRe)
	if len(hs) == 0 {
		fatal("no harness for property %s", prop)
	}
	dirSet := map[string]bool{}
	var dirs []string
	for _, h := range hs {
		if !dirSet[h.pkgDir] {
			dirSet[h.pkgDir] = true
			dirs = append(dirs, h.pkgDir)
		}
	}
	module := modulePath()
	interp.RegisterVrt(module)
	prog, byDir := loadProgram(files, dirs)
	loadWall := time.Since(t0)
	sizes := &types.StdSizes{WordSize: 8, MaxAlign: 8}

	var results []*interp.HarnessResult
	for _, h := range hs {
		pkg := byDir[h.pkgDir]
		if pkg == nil {
			fatal("package for %s not loaded", h.pkgDir)
		}
		fn := pkg.Func(h.name)
		if fn == nil {
			fatal("harness %s not found in %s", h.name, h.pkgDir)
		}
		cfg := &interp.Config{Tier: *tier, QueryMs: tc.queryMs, FeasMs: tc.feasMs, MaxPaths: tc.maxPaths, MaxSteps: tc.maxSteps, HarnessSec: tc.harnessSec,
			MaxDepth: tc.maxDepth, Workers: nw, Seed: seed, MaxViol: 100, ModulePath: module}
		r := interp.RunHarness(prog, fn, cfg, sizes)
		r.Name = h.name
		results = append(results, r)
		if *verbose {
			fmt.Fprintf(os.Stderr, "%s: paths=%d aborted=%d decisions=%d asserts=%d(+%d concrete) unknown=%d viol=%d inconclusive=%d wall=%.1fs solver=%.1fs\n",
				h.name, r.Paths, r.Aborted, r.Decisions, r.Asserts, r.ConcAsserts, r.Unknown, len(r.Violations), len(r.Inconclusive), r.Wall.Seconds(), r.SolverWall.Seconds())
			seen := map[string]int{}
			for _, s := range r.Inconclusive {
				seen[s]++
			}
			for s, n := range seen {
				fmt.Fprintf(os.Stderr, "   inconclusive (x%d): %s\n", n, s)
			}
		}
	}
	if *only != "" {
		os.Setenv("VERIF_PARTIAL", "1")
	}
	return report(prop, *tier, seed, hs, results, files, !*noReplay, time.Since(t0), loadWall, *verbose)
}

// ---- replay ----

type replayFile struct {
	Property  string             `json:"property"`
	Harness   string             `json:"harness"`
	PkgDir    string             `json:"pkg_dir"`
	Tier      string             `json:"tier"`
	Kind      string             `json:"kind"` // violation | cover
	Expect    string             `json:"expect"`
	Label     string             `json:"label"`
	Msg       string             `json:"msg,omitempty"`
	Tags      []string           `json:"tags,omitempty"`
	Model     []interp.NondetVal `json:"model"`
	Decisions string             `json:"decisions,omitempty"`
	Theory    string             `json:"theory,omitempty"`
	Solver    string             `json:"solver,omitempty"`
}

type replayOutcome struct {
	Outcome string
	Covered []string
	Raw     string
}

// raceMode builds the replay test with the race detector (C19 violations).
var raceMode bool

// runReplays runs the given replay files natively, grouped by package: one `go test` per package.
func runReplays(files []harnessFile, reps []string, hang bool) map[string]replayOutcome {
	out := map[string]replayOutcome{}
	byPkg := map[string][]string{}
	meta := map[string]replayFile{}
	for _, p := range reps {
		b, err := os.ReadFile(p)
		if err != nil {
			continue
		}
		var rf replayFile
		if json.Unmarshal(b, &rf) != nil {
			continue
		}
		meta[p] = rf
		byPkg[rf.PkgDir] = append(byPkg[rf.PkgDir], p)
	}
	work, err := os.MkdirTemp(filepath.Join(verifDir, ".work"), "replay-")
	if err != nil {
		os.MkdirAll(filepath.Join(verifDir, ".work"), 0o755)
		work, err = os.MkdirTemp(filepath.Join(verifDir, ".work"), "replay-")
		if err != nil {
			fatal("mkdir work: %v", err)
		}
	}
	defer os.RemoveAll(work)
	module := modulePath()
	for dir, list := range byPkg {
		ov := map[string]string{}
		var pkgName string
		names := map[string]bool{}
		for _, f := range files {
			ov[f.virtual] = f.src
			if f.pkgDir == dir {
				b, _ := os.ReadFile(f.src)
				if m := regexp.MustCompile(`(?m)^package (\w+)`).FindSubmatch(b); m != nil {
					pkgName = string(m[1])
				}
				for _, m := range harnessFuncRe.FindAllStringSubmatch(string(b), -1) {
					names[m[1]] = true
				}
			}
		}
		var sb strings.Builder
		sb.WriteString("//go:build verif\n\npackage " + pkgName + "\n\nimport (\n\t\"fmt\"\n\t\"os\"\n\t\"strings\"\n\t\"testing\"\n\n\tvrt \"" + module + "/internal/vrt\"\n)\n\n")
		sb.WriteString("var verifHarnesses = map[string]func(){\n")
		var nl []string
		for n := range names {
			nl = append(nl, n)
		}
		sort.Strings(nl)
		for _, n := range nl {
			fmt.Fprintf(&sb, "\t%q: %s,\n", n, n)
		}
		sb.WriteString("}\n\nfunc TestVerifReplay(t *testing.T) {\n\tlistBytes, _ := os.ReadFile(os.Getenv(\"VERIF_REPLAY_LIST_FILE\"))\n\tfor _, item := range strings.Split(string(listBytes), \";\") {\n\t\tif item == \"\" {\n\t\t\tcontinue\n\t\t}\n\t\tparts := strings.SplitN(item, \"=\", 2)\n\t\th := verifHarnesses[parts[0]]\n\t\tif h == nil {\n\t\t\tfmt.Printf(\"VERIF-REPLAY file=%s outcome=%q\\n\", parts[1], \"no-such-harness\")\n\t\t\tcontinue\n\t\t}\n\t\tos.Setenv(\"VERIF_MODEL\", parts[1])\n\t\tfmt.Printf(\"VERIF-REPLAY-START file=%s\\n\", parts[1])\n\t\tout := vrt.Run(h)\n\t\tfmt.Printf(\"VERIF-REPLAY file=%s outcome=%q covered=%q\\n\", parts[1], out, strings.Join(vrt.Covered, \",\"))\n\t}\n}\n")
		testPath := filepath.Join(work, strings.ReplaceAll(dir, "/", "_")+"_replay_test.go")
		os.WriteFile(testPath, []byte(sb.String()), 0o644)
		ov[filepath.Join(repoDir, dir, "zz_verif_replay_test.go")] = testPath
		ovb, _ := json.Marshal(map[string]interface{}{"Replace": ov})
		ovPath := filepath.Join(work, strings.ReplaceAll(dir, "/", "_")+"_overlay.json")
		os.WriteFile(ovPath, ovb, 0o644)
		var items []string
		for _, p := range list {
			items = append(items, meta[p].Harness+"="+p)
		}
		// hang candidates are replayed one at a time under a short timeout
		batches := [][]string{items}
		timeout := "600s"
		if hang {
			batches = nil
			for _, it := range items {
				batches = append(batches, []string{it})
			}
			timeout = "30s"
		}
		for _, batch := range batches {
			pat := "./" + dir
			goArgs := []string{"test", "-tags", "verif", "-vet=off", "-count=1", "-timeout", timeout, "-overlay", ovPath, "-run", "^TestVerifReplay$", "-v"}
			if raceMode {
				goArgs = append(goArgs, "-race")
			}
			goArgs = append(goArgs, pat)
			cmd := exec.Command("go", goArgs...)
			cmd.Dir = repoDir
			listPath := filepath.Join(work, fmt.Sprintf("list-%d.txt", len(out)))
			os.WriteFile(listPath, []byte(strings.Join(batch, ";")), 0o644)
			cmd.Env = append(goEnv(), "VERIF_REPLAY_LIST_FILE="+listPath)
			b, _ := cmd.CombinedOutput()
			raw := string(b)
			sawRace := strings.Contains(raw, "WARNING: DATA RACE")
			started := ""
			for _, ln := range strings.Split(raw, "\n") {
				if strings.HasPrefix(ln, "VERIF-REPLAY-START file=") {
					started = strings.TrimPrefix(ln, "VERIF-REPLAY-START file=")
				}
				if strings.HasPrefix(ln, "VERIF-REPLAY file=") {
					m := regexp.MustCompile(`^VERIF-REPLAY file=(\S+) outcome=("(?:[^"\\]|\\.)*")(?: covered=("(?:[^"\\]|\\.)*"))?`).FindStringSubmatch(ln)
					if m != nil {
						var o, c string
						json.Unmarshal([]byte(m[2]), &o)
						if m[3] != "" {
							json.Unmarshal([]byte(m[3]), &c)
						}
						if sawRace {
							o = "race"
						}
						ro := replayOutcome{Outcome: o, Raw: ""}
						if c != "" {
							ro.Covered = strings.Split(c, ",")
						}
						out[m[1]] = ro
						started = ""
					}
				}
			}
			if started != "" {
				// the process died inside this replay: fatal error, timeout, stack overflow
				o := "crash"
				switch {
				case strings.Contains(raw, "stack overflow"):
					o = "fatal:stack overflow"
				case strings.Contains(raw, "test timed out"):
					o = "timeout"
				case strings.Contains(raw, "fatal error:"):
					o = "fatal"
				}
				out[started] = replayOutcome{Outcome: o, Raw: tail(raw, 1500)}
			}
			for _, it := range batch {
				p := strings.SplitN(it, "=", 2)[1]
				if _, ok := out[p]; !ok {
					out[p] = replayOutcome{Outcome: "not-run", Raw: tail(raw, 1500)}
				}
			}
		}
	}
	return out
}

func tail(s string, n int) string {
	if len(s) > n {
		return s[len(s)-n:]
	}
	return s
}

func cmdReplay(args []string) int {
	if len(args) < 1 {
		usage()
	}
	p, _ := filepath.Abs(args[0])
	b, err := os.ReadFile(p)
	if err != nil {
		fatal("%v", err)
	}
	var rf replayFile
	if err := json.Unmarshal(b, &rf); err != nil {
		fatal("%v", err)
	}
	raceMode = rf.Expect == "race"
	res := runReplays(collectHarness(), []string{p}, rf.Expect == "hang")
	ro := res[p]
	fmt.Printf("replay %s: harness=%s expected=%s observed=%s\n", p, rf.Harness, rf.Expect, ro.Outcome)
	if ro.Raw != "" {
		fmt.Println(ro.Raw)
	}
	if outcomeMatches(rf, ro) && rf.Kind == "violation" {
		fmt.Printf("VIOLATION property=%s replay=%s\n", rf.Property, p)
		return 1
	}
	return 0
}

func outcomeMatches(rf replayFile, ro replayOutcome) bool {
	switch {
	case rf.Kind == "cover":
		for _, c := range ro.Covered {
			if c == rf.Label {
				return true
			}
		}
		return false
	case strings.HasPrefix(rf.Expect, "assert:"):
		return ro.Outcome == rf.Expect
	case rf.Expect == "panic":
		return strings.HasPrefix(ro.Outcome, "panic:") || strings.HasPrefix(ro.Outcome, "fatal")
	case rf.Expect == "race":
		return ro.Outcome == "race"
	case rf.Expect == "hang":
		return ro.Outcome == "timeout" || strings.HasPrefix(ro.Outcome, "fatal")
	}
	return false
}
