package main

import (
	"encoding/json"
	"fmt"
	"os"
	"path/filepath"
	"regexp"
	"sort"
	"strings"
	"time"

	"verif/engine/interp"
)

type knownFinding struct {
	Property string   `json:"property"`
	Harness  string   `json:"harness"`
	Label    string   `json:"label"`
	Tags     []string `json:"tags,omitempty"`
	What     string   `json:"what"`
	Status   string   `json:"status"`
}

type knownFile struct {
	Findings []knownFinding `json:"findings"`
	Fixed    []string       `json:"fixed"`
}

func loadKnown() knownFile {
	var kf knownFile
	b, err := os.ReadFile(filepath.Join(verifDir, "known_findings.json"))
	if err == nil {
		json.Unmarshal(b, &kf)
	}
	return kf
}

func (kf knownFile) match(prop string, v interp.Violation) *knownFinding {
	for i, f := range kf.Findings {
		if f.Status != "" && f.Status != "open" {
			continue
		}
		if f.Property != prop || f.Harness != v.Harness || f.Label != v.Label {
			continue
		}
		ok := true
		for _, t := range f.Tags {
			found := false
			for _, vt := range v.Tags {
				if vt == t {
					found = true
				}
			}
			if !found {
				ok = false
			}
		}
		if ok {
			return &kf.Findings[i]
		}
	}
	return nil
}

var coverRe = regexp.MustCompile(`vrt\.Cover\("([^"]+)"\)`)

// declaredCovers scans the harness sources of a property for Cover labels.
func declaredCovers(files []harnessFile, prop string) []string {
	set := map[string]bool{}
	for _, f := range files {
		b, err := os.ReadFile(f.src)
		if err != nil {
			continue
		}
		for _, m := range coverRe.FindAllStringSubmatch(string(b), -1) {
			if strings.HasPrefix(m[1], prop+".") {
				set[m[1]] = true
			}
		}
	}
	var out []string
	for k := range set {
		out = append(out, k)
	}
	sort.Strings(out)
	return out
}

func sanitize(s string) string {
	return regexp.MustCompile(`[^A-Za-z0-9_.-]+`).ReplaceAllString(s, "_")
}

func report(prop, tier string, seed int64, hs []harnessRef, results []*interp.HarnessResult, files []harnessFile, doReplay bool, wall, loadWall time.Duration, verbose bool) int {
	pkgOf := map[string]string{}
	for _, h := range hs {
		pkgOf[h.name] = h.pkgDir
	}
	repDir := filepath.Join(verifDir, "replays", prop)
	os.RemoveAll(repDir)
	os.MkdirAll(repDir, 0o755)

	type pendingViol struct {
		v    interp.Violation
		path string
	}
	var viols []pendingViol
	var coverPaths []string
	coverOf := map[string]string{}
	var hangPaths []string
	var racePaths []string
	var normalPaths []string
	perKey := map[string]int{}
	for _, r := range results {
		for k, v := range r.Violations {
			v.Harness = r.Name
			// replay at most a few violations per (harness, assertion, tags) class
			key := r.Name + "|" + v.Kind + "|" + v.Label + "|" + strings.Join(v.Tags, ",")
			perKey[key]++
			if perKey[key] > 3 {
				continue
			}
			expect := "assert:" + v.Label
			if v.Kind == "panic" {
				expect = "panic"
			} else if v.Kind == "hang" {
				expect = "hang"
			}
			for _, tg := range v.Tags {
				if tg == "native-replay:race" {
					expect = "race"
				}
			}
			rf := replayFile{Property: prop, Harness: r.Name, PkgDir: pkgOf[r.Name], Tier: tier, Kind: "violation", Expect: expect, Label: v.Label,
				Msg: v.Msg, Tags: v.Tags, Model: v.Model, Decisions: v.Decisions, Theory: v.Theory, Solver: v.Solver}
			p := filepath.Join(repDir, fmt.Sprintf("%s-v%d.json", r.Name, k))
			b, _ := json.MarshalIndent(rf, "", " ")
			os.WriteFile(p, b, 0o644)
			viols = append(viols, pendingViol{v, p})
			if v.Kind == "hang" {
				hangPaths = append(hangPaths, p)
			} else if expect == "race" {
				racePaths = append(racePaths, p)
			} else {
				normalPaths = append(normalPaths, p)
			}
		}
		var labels []string
		for l := range r.Covers {
			labels = append(labels, l)
		}
		sort.Strings(labels)
		for _, l := range labels {
			cw := r.Covers[l]
			rf := replayFile{Property: prop, Harness: r.Name, PkgDir: pkgOf[r.Name], Tier: tier, Kind: "cover", Expect: "cover:" + l, Label: l, Model: cw.Model}
			p := filepath.Join(repDir, fmt.Sprintf("%s-c-%s.json", r.Name, sanitize(l)))
			b, _ := json.MarshalIndent(rf, "", " ")
			os.WriteFile(p, b, 0o644)
			coverPaths = append(coverPaths, p)
			coverOf[p] = l
		}
	}

	var problems []string // exit 2 reasons
	outcomes := map[string]replayOutcome{}
	if doReplay {
		if len(normalPaths)+len(coverPaths) > 0 {
			for k, v := range runReplays(files, append(append([]string{}, normalPaths...), coverPaths...), false) {
				outcomes[k] = v
			}
		}
		if len(hangPaths) > 0 {
			for k, v := range runReplays(files, hangPaths, true) {
				outcomes[k] = v
			}
		}
		if len(racePaths) > 0 {
			raceMode = true
			for k, v := range runReplays(files, racePaths, false) {
				outcomes[k] = v
			}
			raceMode = false
		}
	}

	kf := loadKnown()
	exit := 0
	nviol := 0
	knownPrinted := map[string]bool{}
	for _, pv := range viols {
		b, _ := os.ReadFile(pv.path)
		var rf replayFile
		json.Unmarshal(b, &rf)
		reproduced := true
		if doReplay {
			reproduced = outcomeMatches(rf, outcomes[pv.path])
		}
		if !reproduced {
			problems = append(problems, fmt.Sprintf("ENGINE-MISMATCH harness=%s %s %s: solver model did not reproduce natively (observed %q) replay=%s", pv.v.Harness, pv.v.Kind, pv.v.Label, outcomes[pv.path].Outcome, pv.path))
			continue
		}
		if k := kf.match(prop, pv.v); k != nil {
			key := k.Harness + "|" + k.Label + "|" + strings.Join(k.Tags, ",")
			if !knownPrinted[key] {
				knownPrinted[key] = true
				fmt.Printf("KNOWN-FINDING: property=%s %s (harness %s, assertion %s, replay %s)\n", prop, k.What, k.Harness, k.Label, pv.path)
			}
			continue
		}
		nviol++
		exit = 1
		fmt.Printf("VIOLATION property=%s replay=%s\n", prop, pv.path)
		fmt.Printf("  harness=%s kind=%s label=%s %s tags=%v\n  model: %s\n", pv.v.Harness, pv.v.Kind, pv.v.Label, pv.v.Msg, pv.v.Tags, modelString(pv.v.Model))
	}
	validated := 0
	for _, p := range coverPaths {
		if !doReplay {
			continue
		}
		b, _ := os.ReadFile(p)
		var rf replayFile
		json.Unmarshal(b, &rf)
		if outcomeMatches(rf, outcomes[p]) {
			validated++
			os.Remove(p) // cover witnesses that replayed are not kept
		} else {
			problems = append(problems, fmt.Sprintf("ENGINE-MISMATCH cover %s of %s: witness did not reach the label natively (outcome %q covered %v) replay=%s", coverOf[p], rf.Harness, outcomes[p].Outcome, outcomes[p].Covered, p))
		}
	}

	// vacuity: every declared cover label of the property must have been reached
	reached := map[string]bool{}
	for _, r := range results {
		for l := range r.Covers {
			reached[l] = true
		}
	}
	full := os.Getenv("VERIF_PARTIAL") == ""
	var unreached []string
	if full {
		for _, l := range declaredCovers(files, prop) {
			if strings.Contains(l, "@thorough") && tier != "thorough" {
				continue
			}
			if !reached[l] {
				unreached = append(unreached, l)
			}
		}
	}
	if len(unreached) > 0 && exit == 0 {
		problems = append(problems, fmt.Sprintf("VACUOUS: cover points not reached: %v", unreached))
	}
	for _, r := range results {
		for _, s := range r.Inconclusive {
			problems = append(problems, "INCONCLUSIVE "+r.Name+": "+s)
		}
		if r.PathCapHit {
			problems = append(problems, "INCONCLUSIVE "+r.Name+": path cap reached")
		}
		if r.TimedOut {
			problems = append(problems, "INCONCLUSIVE "+r.Name+": time budget of the harness exceeded (exploration stopped; violations found so far are reported)")
		}
	}

	writeEvidence(prop, tier, seed, results, validated, nviol, wall, loadWall, problems)

	if exit == 0 && len(problems) > 0 {
		seen := map[string]bool{}
		n := 0
		for _, p := range problems {
			if seen[p] {
				continue
			}
			seen[p] = true
			if n < 40 {
				fmt.Fprintln(os.Stderr, p)
			}
			n++
		}
		fmt.Fprintf(os.Stderr, "vcheck: %s %s: %d problem(s): result is inconclusive (exit 2)\n", prop, tier, n)
		return 2
	}
	tot := struct{ paths, asserts, conc int }{}
	for _, r := range results {
		tot.paths += r.Paths
		tot.asserts += r.Asserts
		tot.conc += r.ConcAsserts
	}
	if exit == 0 {
		fmt.Printf("OK property=%s tier=%s harnesses=%d paths=%d solver-discharged-assertions=%d concrete-assertions=%d cover-witnesses-replayed=%d wall=%.1fs\n",
			prop, tier, len(results), tot.paths, tot.asserts, tot.conc, validated, wall.Seconds())
	}
	return exit
}

func modelString(m []interp.NondetVal) string {
	var parts []string
	for _, v := range m {
		parts = append(parts, fmt.Sprintf("%s=%s", v.Label, v.Value))
	}
	s := strings.Join(parts, " ")
	if len(s) > 600 {
		s = s[:600] + "…"
	}
	return s
}

func writeEvidence(prop, tier string, seed int64, results []*interp.HarnessResult, validated, nviol int, wall, loadWall time.Duration, problems []string) {
	states, trans, obligations, conc, unknown, aborted := 0, 0, 0, 0, 0, 0
	distinct := 0
	queries := map[string]int{}
	funcs := map[string]string{}
	intr := map[string]int{}
	bounds := map[string]int{}
	assumes := map[string]int{}
	var samples []interface{}
	var perHarness []map[string]interface{}
	solverWall := 0.0
	for _, r := range results {
		states += r.Paths
		trans += r.Decisions
		obligations += r.Asserts
		conc += r.ConcAsserts
		unknown += r.Unknown
		aborted += r.Aborted
		distinct += len(r.Distinct)
		solverWall += r.SolverWall.Seconds()
		for k, v := range r.Queries {
			queries[k] += v
		}
		for k, v := range r.Funcs {
			funcs[k] = v
		}
		for k, v := range r.Intrinsics {
			intr[k] += v
		}
		for k, v := range r.Bounds {
			bounds[r.Name+"."+k] = v
		}
		for k, v := range r.Assumes {
			assumes[r.Name+": "+k] += v
		}
		for i, s := range r.Samples {
			if i < 2 {
				samples = append(samples, map[string]interface{}{"harness": r.Name, "model": modelString(s)})
			}
		}
		var covers []string
		for l := range r.Covers {
			covers = append(covers, l)
		}
		sort.Strings(covers)
		perHarness = append(perHarness, map[string]interface{}{"harness": r.Name, "paths": r.Paths, "infeasible_or_assumed_away": r.Aborted, "decisions": r.Decisions,
			"assertions_discharged_by_solver": r.Asserts, "assertions_concretely_true": r.ConcAsserts, "violations": len(r.Violations), "covers_reached": covers,
			"wall_s": round1(r.Wall.Seconds()), "solver_wall_s": round1(r.SolverWall.Seconds()), "unknown": r.Unknown})
	}
	if len(samples) == 0 {
		samples = append(samples, "no symbolic inputs on the explored paths")
	}
	var fl []string
	for k, v := range funcs {
		rel := strings.TrimPrefix(v, repoDir+"/")
		fl = append(fl, k+" @ "+rel)
	}
	sort.Strings(fl)
	var il []string
	for k := range intr {
		il = append(il, k)
	}
	sort.Strings(il)
	if states == 0 {
		states = 0
	}
	ev := map[string]interface{}{
		"property_id": prop,
		"tier":        tier,
		"seed":        seed,
		"level":       "model_checking",
		"wall_s":      round1(wall.Seconds()),
		"violations":  nviol,
		"coverage": map[string]interface{}{
			"states":                        states,
			"transitions":                   trans,
			"traces_validated_against_impl": validated,
			"samples":                       samples,
			"obligations":                   obligations,
			"discharged":                    obligations,
			"evaluations":                   states,
			"distinct_nontrivial":           distinct,
			"rule":                          "one case = one feasible path of a harness through the real SSA (decision-prefix DFS); it is non-trivial if it reaches at least one assertion; distinct by decision sequence. states = feasible completed paths, transitions = solver-decided branch/choice points, obligations = assertions with symbolic conditions proved unsat(¬cond) by the solver, traces_validated_against_impl = cover-point witnesses (solver models) replayed natively with `go test -overlay` and reaching the same label",
			"exhaustive":                    len(problems) == 0,
			"assertions_concretely_true":    conc,
			"paths_infeasible_or_assumed":   aborted,
			"solver_unknown":                unknown,
			"queries_by_backend":            queries,
			"solver_wall_s":                 round1(solverWall),
			"ssa_load_wall_s":               round1(loadWall.Seconds()),
			"functions_encoded":             fl,
			"functions_encoded_count":       len(fl),
			"intrinsics_used":               il,
			"bounds":                        bounds,
			"path_aborts":                   assumes,
			"per_harness":                   perHarness,
			"problems":                      problems,
			"technique":                     "bounded symbolic execution of go/ssa built from /repo's working tree (gosym), SMT-decided (z3 4.8.12 / z3 5.1 / cvc5 1.0; BV and INT-with-wrap encodings)",
		},
		"assumptions": []string{
			"bounded: only the input shapes/sizes generated by the harnesses (see coverage.bounds and DESIGN.md §5) are covered; nothing is claimed outside them",
			"the gosym interpreter (fork of x/tools go/ssa/interp) and the listed intrinsics model Go semantics faithfully; every reported violation and every cover witness is replayed against the natively compiled code",
			"SMT solvers are sound; sat models are cross-checked by concrete evaluation of the term DAG",
			"Go maps iterate in insertion order inside the executor unless the harness enables nondeterministic order",
		},
	}
	os.MkdirAll(filepath.Join(verifDir, "evidence"), 0o755)
	b, _ := json.MarshalIndent(ev, "", " ")
	os.WriteFile(filepath.Join(verifDir, "evidence", prop+".json"), b, 0o644)
}

func round1(f float64) float64 { return float64(int(f*10+0.5)) / 10 }
