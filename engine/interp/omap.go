package interp

// omap: insertion-ordered map used for every Go map.  Deterministic iteration
// makes decision-prefix re-execution reproducible; keys containing terms are
// compared by equality terms and forked through the explorer.

import (
	"fmt"
	"go/types"
	"strings"
)

type oentry struct {
	key, val value
	deleted  bool
	enc      string
	conc     bool
}

type omap struct {
	entries []*oentry
	idx     map[string]*oentry
	nsym    int
	live    int
}

func makeMap(kt types.Type, reserve int64) value {
	return &omap{idx: map[string]*oentry{}}
}

// keyEnc encodes a key; ok is false if the key contains symbolic parts.
func keyEnc(v value, sb *strings.Builder) bool {
	switch v := v.(type) {
	case bool, int, int8, int16, int32, int64, uint, uint8, uint16, uint32, uint64, uintptr, float32, float64, complex64, complex128:
		fmt.Fprintf(sb, "%T:%v;", v, v)
	case string:
		fmt.Fprintf(sb, "s%d:%s;", len(v), v)
	case *value:
		fmt.Fprintf(sb, "p%p;", v)
	case structure:
		sb.WriteString("{")
		for _, f := range v {
			if !keyEnc(f, sb) {
				return false
			}
		}
		sb.WriteString("}")
	case array:
		sb.WriteString("[")
		for _, f := range v {
			if !keyEnc(f, sb) {
				return false
			}
		}
		sb.WriteString("]")
	case iface:
		if v.t == nil {
			sb.WriteString("nil;")
			return true
		}
		fmt.Fprintf(sb, "i(%s)", v.t.String())
		return keyEnc(v.v, sb)
	case *Term, symString:
		return false
	case nil:
		sb.WriteString("nil;")
	case []value, *omap, *closure:
		panic(fmt.Sprintf("runtime error: hash of unhashable type %T", v))
	default:
		fmt.Fprintf(sb, "?%T:%v;", v, v)
	}
	return true
}

func encodeKey(k value) (string, bool) {
	var sb strings.Builder
	ok := keyEnc(k, &sb)
	return sb.String(), ok
}

func (m *omap) find(fr *frame, k value) *oentry {
	if m == nil {
		return nil
	}
	enc, conc := encodeKey(k)
	if conc {
		if e := m.idx[enc]; e != nil && !e.deleted {
			return e
		}
		if m.nsym == 0 {
			return nil
		}
	}
	for _, e := range m.entries {
		if e.deleted || (conc && e.conc) {
			continue
		}
		switch c := equalsV(e.key, k).(type) {
		case bool:
			if c {
				return e
			}
		case *Term:
			if fr.i.ex.decide(c) {
				return e
			}
		}
	}
	return nil
}

func (m *omap) lookup(fr *frame, k value) (value, bool) {
	e := m.find(fr, k)
	if e == nil {
		return nil, false
	}
	return e.val, true
}

func (m *omap) insert(fr *frame, k, v value) {
	if e := m.find(fr, k); e != nil {
		e.val = v
		return
	}
	enc, conc := encodeKey(k)
	e := &oentry{key: k, val: v, enc: enc, conc: conc}
	m.entries = append(m.entries, e)
	if conc {
		m.idx[enc] = e
	} else {
		m.nsym++
	}
	m.live++
}

func (m *omap) delete(fr *frame, k value) {
	if m == nil {
		return
	}
	if e := m.find(fr, k); e != nil {
		e.deleted = true
		if e.conc {
			delete(m.idx, e.enc)
		} else {
			m.nsym--
		}
		m.live--
	}
}

func (m *omap) clear() {
	for _, e := range m.entries {
		e.deleted = true
	}
	m.entries = nil
	m.idx = map[string]*oentry{}
	m.nsym, m.live = 0, 0
}

func (m *omap) len() int {
	if m == nil {
		return 0
	}
	return m.live
}

type omapIter struct {
	es []*oentry
	i  int
}

func (m *omap) iter(fr *frame) iter {
	if m == nil {
		return &omapIter{}
	}
	var es []*oentry
	for _, e := range m.entries {
		if !e.deleted {
			es = append(es, e)
		}
	}
	if ex := fr.i.ex; ex != nil && ex.nondetOrder && len(es) > 1 {
		ord := ex.nondetSeen
		ex.nondetSeen++
		if ex.nondetAt < 0 || ex.nondetAt == ord {
			// the iteration order of this loop becomes a forked permutation
			if len(es) <= 4 {
				perm := make([]*oentry, 0, len(es))
				rest := append([]*oentry{}, es...)
				for len(rest) > 1 {
					k := ex.choice(len(rest))
					perm = append(perm, rest[k])
					rest = append(rest[:k], rest[k+1:]...)
				}
				perm = append(perm, rest[0])
				es = perm
			} else {
				// larger maps: every rotation, and the reversal
				k := ex.choice(len(es) + 1)
				n := len(es)
				perm := make([]*oentry, n)
				for i := range es {
					if k == n {
						perm[i] = es[n-1-i]
					} else {
						perm[i] = es[(i+k)%n]
					}
				}
				es = perm
			}
			ex.w.res.Bounds["map-iterations-permuted"]++
		}
	}
	return &omapIter{es: es}
}

func (it *omapIter) next() tuple {
	for it.i < len(it.es) {
		e := it.es[it.i]
		it.i++
		if e.deleted {
			continue
		}
		return []value{true, e.key, e.val}
	}
	return []value{false, nil, nil}
}
