package interp

// Symbolic extensions of the interpreter's operators: integer/Boolean terms,
// strings with symbolic bytes, term-aware equality, symbolic indices.

import (
	"fmt"
	"go/token"
	"go/types"
	"unicode/utf8"
)

// symString is a string of concrete length whose bytes may be 8-bit terms.
type symString struct {
	b      []value
	opaque bool
}

func strBytes(s string) []value {
	b := make([]value, len(s))
	for i := 0; i < len(s); i++ {
		b[i] = s[i]
	}
	return b
}

// mkString collapses to a Go string when all bytes are concrete.
func mkString(b []value) value {
	if hasOpaque(b) {
		return mkStringO(b)
	}
	buf := make([]byte, len(b))
	for i, x := range b {
		c, ok := x.(byte)
		if !ok {
			cp := make([]value, len(b))
			copy(cp, b)
			return symString{b: cp}
		}
		buf[i] = c
	}
	return string(buf)
}

func bytesOfString(v value) ([]value, bool) {
	switch s := v.(type) {
	case string:
		return strBytes(s), true
	case symString:
		if s.opaque {
			panic(engineError{"opaque formatted string inspected"})
		}
		return s.b, true
	}
	return nil, false
}

func isSym(v value) bool {
	switch v.(type) {
	case *Term, symString:
		return true
	}
	return false
}

func isStringVal(v value) bool {
	switch v.(type) {
	case string, symString:
		return true
	}
	return false
}

// ---- frame helpers ----

// concIdx makes an optional integer operand concrete (forking if needed).
func (fr *frame) concIdx(v value) value {
	t, ok := v.(*Term)
	if !ok {
		return v
	}
	return fr.concTermSmall(t)
}

func (fr *frame) concInt(v value) value { return v }

// concTermSmall concretizes an integer term by forking on its feasible values,
// searching outward from the model value.
func (fr *frame) concTermSmall(t *Term) value {
	ex := fr.i.ex
	// Try the model's value first, then ask for different values until none is left.
	// The candidate depends on the model, so it is recorded in the decision and
	// reused verbatim when the prefix is re-executed.
	for n := 0; n < 4096; n++ {
		cur, replay := ex.replayK()
		if !replay {
			if !ex.modelOK {
				if _, ok := ex.currentModel(); !ok {
					panic(engineError{"concretize: no model"})
				}
			}
			cur = evalTerm(t, ex.model, map[*Term]uint64{})
		}
		kt := mkConst(cur, t.w, t.signed)
		ex.pendingK = cur
		ex.noFast = true
		got := ex.decide(mkEq(t, kt))
		ex.noFast = false
		ex.pendingK = 0
		if got {
			return constToValue(kt, true)
		}
	}
	panic(engineError{"concretize: more than 4096 values"})
}

// boundIdx checks 0 <= idx < n (panicking like Go otherwise) and returns a concrete index.
func (fr *frame) boundIdx(idx value, n int) int {
	if t, ok := idx.(*Term); ok {
		ex := fr.i.ex
		var inr *Term
		nt := mkConst(uint64(n), t.w, t.signed)
		if t.signed {
			inr = mkAnd(mkLe(mkConst(0, t.w, true), t), mkLt(t, nt))
		} else {
			inr = mkLt(t, nt)
		}
		if !ex.decide(inr) {
			panic(fmt.Sprintf("runtime error: index out of range [symbolic] with length %d", n))
		}
		return int(asInt64(fr.concTermSmall(t)))
	}
	i := asInt64(idx)
	if i < 0 || i >= int64(n) {
		panic(fmt.Sprintf("runtime error: index out of range [%d] with length %d", i, n))
	}
	return int(i)
}

// indexArray reads x[idx]; a symbolic index into an array of concrete scalars
// becomes an ite chain grouped by element value (no forking).
func (fr *frame) indexArray(x array, idx value) value {
	t, ok := idx.(*Term)
	if !ok {
		return x[fr.boundIdx(idx, len(x))]
	}
	scalar := len(x) > 0
	for _, e := range x {
		switch e.(type) {
		case bool, int, int8, int16, int32, int64, uint, uint8, uint16, uint32, uint64, uintptr:
		default:
			scalar = false
		}
		if !scalar {
			break
		}
	}
	if !scalar {
		return x[fr.boundIdx(idx, len(x))]
	}
	ex := fr.i.ex
	nt := mkConst(uint64(len(x)), t.w, t.signed)
	var inr *Term
	if t.signed {
		inr = mkAnd(mkLe(mkConst(0, t.w, true), t), mkLt(t, nt))
	} else {
		inr = mkLt(t, nt)
	}
	if !ex.decide(inr) {
		panic(fmt.Sprintf("runtime error: index out of range [symbolic] with length %d", len(x)))
	}
	// group indices by value
	type grp struct {
		v    *Term
		cond *Term
		n    int
	}
	var groups []*grp
	byVal := map[uint64]*grp{}
	for i, e := range x {
		ev := liftVal(e)
		g := byVal[ev.c]
		if g == nil {
			g = &grp{v: ev, cond: termFalse}
			byVal[ev.c] = g
			groups = append(groups, g)
		}
		g.cond = mkOr(g.cond, mkEq(t, mkConst(uint64(i), t.w, t.signed)))
		g.n++
	}
	// most common value is the default
	best := groups[0]
	for _, g := range groups {
		if g.n > best.n {
			best = g
		}
	}
	res := best.v
	for _, g := range groups {
		if g != best {
			res = mkIte(g.cond, g.v, res)
		}
	}
	if res.isConst() {
		return constToValue(res, true)
	}
	return res
}

// ---- binary operators ----

var cmpOps = map[token.Token]bool{token.LSS: true, token.LEQ: true, token.GTR: true, token.GEQ: true}

func binopSym(fr *frame, op token.Token, t types.Type, x, y value) value {
	switch op {
	case token.EQL:
		return eqnilV(t, x, y)
	case token.NEQ:
		r := eqnilV(t, x, y)
		if b, ok := r.(bool); ok {
			return !b
		}
		return mkNot(r.(*Term))
	}
	_, xt := x.(*Term)
	_, yt := y.(*Term)
	if xt || yt {
		return fixIntKind(termBinop(fr, op, x, y), t)
	}
	_, xs := x.(symString)
	_, ys := y.(symString)
	if xs || ys {
		xb, _ := bytesOfString(x)
		yb, _ := bytesOfString(y)
		switch op {
		case token.ADD:
			return mkString(append(append([]value{}, xb...), yb...))
		case token.LSS, token.LEQ, token.GTR, token.GEQ:
			c := strCompareSym(fr, xb, yb)
			switch op {
			case token.LSS:
				return c < 0
			case token.LEQ:
				return c <= 0
			case token.GTR:
				return c > 0
			default:
				return c >= 0
			}
		}
		panic(engineError{"string op " + op.String()})
	}
	// concrete division by zero: Go-like message
	if op == token.QUO || op == token.REM {
		switch yv := y.(type) {
		case int, int8, int16, int32, int64, uint, uint8, uint16, uint32, uint64, uintptr:
			if asInt64(yv) == 0 {
				panic("runtime error: integer divide by zero")
			}
		}
	}
	return binop(op, t, x, y)
}

func termBinop(fr *frame, op token.Token, x, y value) value {
	ex := fr.i.ex
	tx, ty := liftVal(x), liftVal(y)
	w, s := tx.w, tx.signed
	var r *Term
	switch op {
	case token.ADD:
		r = mk(OpAdd, w, s, tx, ty)
	case token.SUB:
		r = mk(OpSub, w, s, tx, ty)
	case token.MUL:
		r = mk(OpMul, w, s, tx, ty)
	case token.QUO, token.REM:
		if ex.decide(mkEq(ty, mkConst(0, ty.w, ty.signed))) {
			panic("runtime error: integer divide by zero")
		}
		if op == token.QUO {
			r = mk(OpDiv, w, s, tx, ty)
		} else {
			r = mk(OpRem, w, s, tx, ty)
		}
	case token.AND:
		r = mk(OpAnd, w, s, tx, ty)
	case token.OR:
		r = mk(OpOr, w, s, tx, ty)
	case token.XOR:
		r = mk(OpXor, w, s, tx, ty)
	case token.AND_NOT:
		r = mk(OpAnd, w, s, tx, mk(OpCompl, ty.w, ty.signed, ty))
	case token.SHL, token.SHR:
		if ty.signed {
			if ex.decide(mkLt(ty, mkConst(0, ty.w, true))) {
				panic("runtime error: negative shift amount")
			}
			ty = mkConv(ty, ty.w, false)
		}
		if op == token.SHL {
			r = mk(OpShl, w, s, tx, ty)
		} else {
			r = mk(OpShr, w, s, tx, ty)
		}
	case token.LSS:
		r = mkLt(tx, ty)
	case token.LEQ:
		r = mkLe(tx, ty)
	case token.GTR:
		r = mkLt(ty, tx)
	case token.GEQ:
		r = mkLe(ty, tx)
	case token.LAND:
		r = mkAnd(tx, ty)
	case token.LOR:
		r = mkOr(tx, ty)
	default:
		panic(engineError{"symbolic binop " + op.String()})
	}
	return termToValue(r)
}

// termToValue returns the Go scalar for constant terms, the term otherwise.
func termToValue(r *Term) value {
	if r.isConst() {
		return constToValue(r, false)
	}
	return r
}

// fixIntKind re-tags a constant-folded value with the Go type expected by t
// (int vs int64, uint vs uint64, uintptr), which constToValue cannot know.
func fixIntKind(v value, t types.Type) value {
	if _, ok := v.(*Term); ok {
		return v
	}
	b, ok := t.Underlying().(*types.Basic)
	if !ok {
		return v
	}
	switch b.Kind() {
	case types.Int:
		if x, ok := v.(int64); ok {
			return int(x)
		}
	case types.Uint:
		if x, ok := v.(uint64); ok {
			return uint(x)
		}
	case types.Uintptr:
		if x, ok := v.(uint64); ok {
			return uintptr(x)
		}
	}
	return v
}

// strCompareSym compares two byte strings, forking on symbolic bytes.
func strCompareSym(fr *frame, x, y []value) int {
	ex := fr.i.ex
	n := len(x)
	if len(y) < n {
		n = len(y)
	}
	for i := 0; i < n; i++ {
		e := equalsV(x[i], y[i])
		var eq bool
		switch e := e.(type) {
		case bool:
			eq = e
		case *Term:
			eq = ex.decide(e)
		}
		if eq {
			continue
		}
		lt := termBinop(fr, token.LSS, x[i], y[i])
		switch lt := lt.(type) {
		case bool:
			if lt {
				return -1
			}
			return 1
		case *Term:
			if ex.decide(lt) {
				return -1
			}
			return 1
		}
	}
	switch {
	case len(x) < len(y):
		return -1
	case len(x) > len(y):
		return 1
	}
	return 0
}

func minmaxSym(fr *frame, a, b value, isMin bool) value {
	if isSym(a) || isSym(b) {
		var lt value
		if isStringVal(a) {
			ab, _ := bytesOfString(a)
			bb, _ := bytesOfString(b)
			lt = strCompareSym(fr, bb, ab) < 0
		} else {
			lt = termBinop(fr, token.LSS, b, a) // b < a
		}
		take := false
		switch l := lt.(type) {
		case bool:
			take = l
		case *Term:
			// non-forking
			if isMin {
				return termToValue(mkIte(l, liftVal(b), liftVal(a)))
			}
			return termToValue(mkIte(l, liftVal(a), liftVal(b)))
		}
		if take == isMin {
			return b
		}
		return a
	}
	if isMin {
		return min(a, b)
	}
	return max(a, b)
}

// ---- equality ----

func conj(a, b value) value {
	ab, aok := a.(bool)
	bb, bok := b.(bool)
	switch {
	case aok && !ab, bok && !bb:
		return false
	case aok && bok:
		return true
	case aok:
		return b
	case bok:
		return a
	}
	r := mkAnd(a.(*Term), b.(*Term))
	return termToValue(r)
}

func isScalar(v value) bool {
	switch v.(type) {
	case bool, int, int8, int16, int32, int64, uint, uint8, uint16, uint32, uint64, uintptr:
		return true
	}
	return false
}

// equalsV is Go's == on interpreter values; the result is a bool or a Bool term.
func equalsV(x, y value) value {
	switch x := x.(type) {
	case *Term:
		return termToValue(mkEq(x, liftVal(y)))
	case bool, int, int8, int16, int32, int64, uint, uint8, uint16, uint32, uint64, uintptr:
		if ty, ok := y.(*Term); ok {
			return termToValue(mkEq(liftVal(x), ty))
		}
		return x == y
	case float32, float64, complex64, complex128:
		return x == y
	case string:
		if ys, ok := y.(symString); ok {
			return strEqSym(strBytes(x), ys.b)
		}
		return x == y.(string)
	case symString:
		yb, _ := bytesOfString(y)
		return strEqSym(x.b, yb)
	case *value:
		return x == y.(*value)
	case chan value:
		return x == y.(chan value)
	case structure:
		ys := y.(structure)
		var r value = true
		for i := range x {
			r = conj(r, equalsV(x[i], ys[i]))
			if b, ok := r.(bool); ok && !b {
				return false
			}
		}
		return r
	case array:
		ys := y.(array)
		var r value = true
		for i := range x {
			r = conj(r, equalsV(x[i], ys[i]))
			if b, ok := r.(bool); ok && !b {
				return false
			}
		}
		return r
	case iface:
		yi := y.(iface)
		if !sameType(x.t, yi.t) {
			return false
		}
		if x.t == nil {
			return true
		}
		return equalsV(x.v, yi.v)
	case nil:
		return y == nil
	case []value, *omap, *closure:
		panic(fmt.Sprintf("runtime error: comparing uncomparable type %T", x))
	}
	panic(engineError{fmt.Sprintf("equalsV: unsupported %T", x)})
}

func strEqSym(x, y []value) value {
	if len(x) != len(y) {
		return false
	}
	var r value = true
	for i := range x {
		r = conj(r, equalsV(x[i], y[i]))
		if b, ok := r.(bool); ok && !b {
			return false
		}
	}
	return r
}

// eqnilV is == for all types including comparisons of reference types with nil.
func eqnilV(t types.Type, x, y value) value {
	switch t.Underlying().(type) {
	case *types.Map, *types.Signature, *types.Slice:
		return eqnil(t, x, y)
	}
	return equalsV(x, y)
}

func equals(t types.Type, x, y value) bool {
	r := equalsV(x, y)
	if b, ok := r.(bool); ok {
		return b
	}
	panic(engineError{"equals: symbolic result in concrete context"})
}

// ---- conversions ----

func convSym(fr *frame, t_dst, t_src types.Type, x value) value {
	ut_dst := t_dst.Underlying()
	ut_src := t_src.Underlying()
	switch xv := x.(type) {
	case *Term:
		if db, ok := ut_dst.(*types.Basic); ok {
			if db.Kind() == types.String {
				// string(rune)
				return mkString(encodeRuneSym(fr, mkConv(xv, 32, true)))
			}
			if w, s, ok := intKind(db); ok && w > 0 {
				return fixIntKind(termToValue(mkConv(xv, w, s)), t_dst)
			}
		}
		panic(engineError{fmt.Sprintf("conversion of symbolic %s to %s", t_src, t_dst)})
	case symString:
		switch d := ut_dst.(type) {
		case *types.Basic:
			if d.Kind() == types.String {
				return xv
			}
		case *types.Slice:
			switch d.Elem().Underlying().(*types.Basic).Kind() {
			case types.Byte:
				return append([]value{}, xv.b...)
			case types.Rune:
				var res []value
				for i := 0; i < len(xv.b); {
					r, n := decodeRuneSym(fr, xv.b[i:])
					res = append(res, r)
					i += n
				}
				return res
			}
		}
		panic(engineError{fmt.Sprintf("conversion of symbolic string to %s", t_dst)})
	case []value:
		if sl, ok := ut_src.(*types.Slice); ok {
			if db, ok := ut_dst.(*types.Basic); ok && db.Kind() == types.String {
				switch sl.Elem().Underlying().(*types.Basic).Kind() {
				case types.Byte:
					return mkString(xv)
				case types.Rune:
					var out []value
					for _, r := range xv {
						if rt, ok := r.(*Term); ok {
							out = append(out, encodeRuneSym(fr, rt)...)
						} else {
							out = append(out, strBytes(string(r.(rune)))...)
						}
					}
					return mkString(out)
				}
			}
		}
	}
	return conv(t_dst, t_src, x)
}

// encodeRuneSym is utf8.AppendRune over a symbolic rune (forks on the length class).
func encodeRuneSym(fr *frame, r *Term) []value {
	ex := fr.i.ex
	if r.isConst() {
		return strBytes(string(rune(sx(r.c, 32))))
	}
	c := func(v int64) *Term { return mkConst(uint64(v), 32, true) }
	b := func(t *Term) value { return termToValue(mkConv(t, 8, false)) }
	shr := func(t *Term, k uint64) *Term { return mk(OpShr, 32, true, t, mkConst(k, 32, false)) }
	and := func(t *Term, m int64) *Term { return mk(OpAnd, 32, true, t, c(m)) }
	or := func(t *Term, m int64) *Term { return mk(OpOr, 32, true, t, c(m)) }
	invalid := mkOr(mkOr(mkLt(r, c(0)), mkLt(c(0x10FFFF), r)), mkAnd(mkLe(c(0xD800), r), mkLe(r, c(0xDFFF))))
	if ex.decide(invalid) {
		return strBytes("�")
	}
	switch {
	case ex.decide(mkLe(r, c(0x7F))):
		return []value{b(r)}
	case ex.decide(mkLe(r, c(0x7FF))):
		return []value{b(or(shr(r, 6), 0xC0)), b(or(and(r, 0x3F), 0x80))}
	case ex.decide(mkLe(r, c(0xFFFF))):
		return []value{b(or(shr(r, 12), 0xE0)), b(or(and(shr(r, 6), 0x3F), 0x80)), b(or(and(r, 0x3F), 0x80))}
	default:
		return []value{b(or(shr(r, 18), 0xF0)), b(or(and(shr(r, 12), 0x3F), 0x80)), b(or(and(shr(r, 6), 0x3F), 0x80)), b(or(and(r, 0x3F), 0x80))}
	}
}

// decodeRuneSym is utf8.DecodeRune over possibly symbolic bytes (p non-empty).
// It forks on the validity/length classes exactly as the Go decoder does.
func decodeRuneSym(fr *frame, p []value) (value, int) {
	ex := fr.i.ex
	allc := true
	lim := len(p)
	if lim > 4 {
		lim = 4
	}
	for _, x := range p[:lim] {
		if _, ok := x.(byte); !ok {
			allc = false
		}
	}
	if allc {
		buf := make([]byte, lim)
		for i := range buf {
			buf[i] = p[i].(byte)
		}
		r, n := utf8.DecodeRune(buf)
		return r, n
	}
	bt := func(i int) *Term { return liftVal(p[i]) }
	u8 := func(v uint64) *Term { return mkConst(v, 8, false) }
	in := func(t *Term, lo, hi uint64) bool {
		return ex.decide(mkAnd(mkLe(u8(lo), t), mkLe(t, u8(hi))))
	}
	r32 := func(t *Term, m uint64) *Term {
		return mkConv(mk(OpAnd, 8, false, t, u8(m)), 32, true)
	}
	shl := func(t *Term, k uint64) *Term { return mk(OpShl, 32, true, t, mkConst(k, 32, false)) }
	or := func(a, b *Term) *Term { return mk(OpOr, 32, true, a, b) }
	runeErr := value(rune(utf8.RuneError))
	b0 := bt(0)
	if in(b0, 0, 0x7F) {
		return termToValue(mkConv(b0, 32, true)), 1
	}
	cont := func(i int, lo, hi uint64) bool {
		if i >= len(p) {
			return false
		}
		return in(bt(i), lo, hi)
	}
	switch {
	case in(b0, 0xC2, 0xDF):
		if !cont(1, 0x80, 0xBF) {
			return runeErr, 1
		}
		return termToValue(or(shl(r32(b0, 0x1F), 6), r32(bt(1), 0x3F))), 2
	case in(b0, 0xE0, 0xEF):
		lo, hi := uint64(0x80), uint64(0xBF)
		if ex.decide(mkEq(b0, u8(0xE0))) {
			lo = 0xA0
		} else if ex.decide(mkEq(b0, u8(0xED))) {
			hi = 0x9F
		}
		if !cont(1, lo, hi) || !cont(2, 0x80, 0xBF) {
			return runeErr, 1
		}
		return termToValue(or(or(shl(r32(b0, 0x0F), 12), shl(r32(bt(1), 0x3F), 6)), r32(bt(2), 0x3F))), 3
	case in(b0, 0xF0, 0xF4):
		lo, hi := uint64(0x80), uint64(0xBF)
		if ex.decide(mkEq(b0, u8(0xF0))) {
			lo = 0x90
		} else if ex.decide(mkEq(b0, u8(0xF4))) {
			hi = 0x8F
		}
		if !cont(1, lo, hi) || !cont(2, 0x80, 0xBF) || !cont(3, 0x80, 0xBF) {
			return runeErr, 1
		}
		return termToValue(or(or(or(shl(r32(b0, 0x07), 18), shl(r32(bt(1), 0x3F), 12)), shl(r32(bt(2), 0x3F), 6)), r32(bt(3), 0x3F))), 4
	}
	return runeErr, 1
}

// symStringIter implements range over a string with possibly symbolic bytes.
type symStringIter struct {
	fr *frame
	b  []value
	i  int
}

func (it *symStringIter) next() tuple {
	okv := make(tuple, 3)
	if it.i >= len(it.b) {
		okv[0] = false
		return okv
	}
	r, n := decodeRuneSym(it.fr, it.b[it.i:])
	okv[0] = true
	okv[1] = it.i
	okv[2] = r
	it.i += n
	return okv
}
