package interp

// Structural stub of encoding/json.Marshal (encoder only).  encoding/json is
// reflection driven and cannot be interpreted; for properties that only observe
// the *order and structure* cedar-go's own code feeds into the encoder (C14) the
// stub renders a value deterministically from its static/dynamic type: it calls
// interpreted MarshalJSON methods, honours json struct tags (name, omitempty,
// "-"), inlines embedded structs, sorts map keys like encoding/json does, and
// preserves slice order.  String escaping and number formatting details of the
// real encoder are NOT modelled (strings are emitted between quotes verbatim).

import (
	"fmt"
	"go/token"
	"go/types"
	"reflect"
	"sort"
	"strconv"
)

func init() {
	externals["encoding/json.Marshal"] = extJSONMarshal
}

type jsonEnc struct {
	fr  *frame
	out []value
	err value // first error returned by an interpreted MarshalJSON
}

func (e *jsonEnc) str(s string) { e.out = append(e.out, strBytes(s)...) }

func extJSONMarshal(fr *frame, a []value) value {
	e := &jsonEnc{fr: fr}
	it := a[0].(iface)
	e.encode(it.v, it.t, 0)
	if e.err != nil {
		return tuple{[]value(nil), e.err}
	}
	return tuple{e.out, iface{}}
}

func isEmptyJSON(v value) bool {
	switch x := v.(type) {
	case bool:
		return !x
	case string:
		return x == ""
	case symString:
		return len(x.b) == 0
	case *value:
		return x == nil
	case iface:
		return x.t == nil
	case []value:
		return len(x) == 0
	case *omap:
		return x.len() == 0
	case *Term:
		return false
	case nil:
		return true
	}
	if isScalar(v) {
		return asInt64OrZero(v) == 0
	}
	return false
}

func asInt64OrZero(v value) int64 {
	defer func() { recover() }()
	return asInt64(v)
}

func (e *jsonEnc) encode(v value, t types.Type, depth int) {
	if e.err != nil {
		return
	}
	if depth > 40 {
		panic(engineError{"json stub: nesting too deep"})
	}
	if t == nil {
		e.str("null")
		return
	}
	// interface: dynamic type
	if _, isI := t.Underlying().(*types.Interface); isI {
		iv, ok := v.(iface)
		if !ok || iv.t == nil {
			e.str("null")
			return
		}
		e.encode(iv.v, iv.t, depth+1)
		return
	}
	// nil pointers encode as null before any method call
	if _, isP := t.Underlying().(*types.Pointer); isP {
		if p, ok := v.(*value); ok && p == nil {
			e.str("null")
			return
		}
	}
	if fn := findMethod(e.fr.i, t, "MarshalJSON"); fn != nil && fn.Signature.Params().Len() == 0 && fn.Signature.Results().Len() == 2 {
		r := call(e.fr.i, e.fr, token.NoPos, fn, []value{v}).(tuple)
		if errv, ok := r[1].(iface); ok && errv.t != nil {
			e.err = errv
			return
		}
		b, _ := r[0].([]value)
		e.out = append(e.out, b...)
		return
	}
	switch ut := t.Underlying().(type) {
	case *types.Pointer:
		p := v.(*value)
		e.encode(*p, ut.Elem(), depth+1)
	case *types.Basic:
		switch x := v.(type) {
		case string:
			e.str(strconv.Quote(x))
		case symString:
			e.str("\"")
			e.out = append(e.out, x.b...)
			e.str("\"")
		case bool:
			e.str(strconv.FormatBool(x))
		case *Term:
			if x.w == 0 {
				panic(engineError{"json stub: symbolic bool"})
			}
			e.out = append(e.out, formatIntSym(e.fr, x, 0)...)
		default:
			if ut.Info()&types.IsInteger != 0 {
				if ut.Info()&types.IsUnsigned != 0 {
					e.str(strconv.FormatUint(uint64(asInt64(v)), 10))
				} else {
					e.str(strconv.FormatInt(asInt64(v), 10))
				}
			} else {
				e.str(fmt.Sprint(v))
			}
		}
	case *types.Struct:
		e.str("{")
		first := true
		e.structFields(v.(structure), ut, &first, depth)
		e.str("}")
	case *types.Slice:
		s, _ := v.([]value)
		if s == nil {
			e.str("null")
			return
		}
		e.str("[")
		for i, x := range s {
			if i > 0 {
				e.str(",")
			}
			e.encode(x, ut.Elem(), depth+1)
		}
		e.str("]")
	case *types.Array:
		e.str("[")
		for i, x := range v.(array) {
			if i > 0 {
				e.str(",")
			}
			e.encode(x, ut.Elem(), depth+1)
		}
		e.str("]")
	case *types.Map:
		m, _ := v.(*omap)
		if m == nil {
			e.str("null")
			return
		}
		type kv struct {
			k string
			v value
		}
		var kvs []kv
		for _, en := range m.entries {
			if en.deleted {
				continue
			}
			ks, ok := en.key.(string)
			if !ok {
				panic(engineError{"json stub: map key is not a concrete string"})
			}
			kvs = append(kvs, kv{ks, en.val})
		}
		sort.Slice(kvs, func(i, j int) bool { return kvs[i].k < kvs[j].k })
		e.str("{")
		for i, p := range kvs {
			if i > 0 {
				e.str(",")
			}
			e.str(strconv.Quote(p.k) + ":")
			e.encode(p.v, ut.Elem(), depth+1)
		}
		e.str("}")
	default:
		panic(engineError{fmt.Sprintf("json stub: unsupported type %s", t)})
	}
}

func (e *jsonEnc) structFields(s structure, st *types.Struct, first *bool, depth int) {
	for i := 0; i < st.NumFields(); i++ {
		f := st.Field(i)
		tag := reflect.StructTag(st.Tag(i)).Get("json")
		name, opts := tag, ""
		for k := 0; k < len(tag); k++ {
			if tag[k] == ',' {
				name, opts = tag[:k], tag[k+1:]
				break
			}
		}
		if tag == "-" {
			continue
		}
		if f.Anonymous() && name == "" {
			if est, ok := f.Type().Underlying().(*types.Struct); ok {
				e.structFields(s[i].(structure), est, first, depth)
				continue
			}
		}
		if !f.Exported() {
			continue
		}
		if name == "" {
			name = f.Name()
		}
		if opts == "omitempty" && isEmptyJSON(s[i]) {
			continue
		}
		if !*first {
			e.str(",")
		}
		*first = false
		e.str(strconv.Quote(name) + ":")
		e.encode(s[i], f.Type(), depth+1)
	}
}
