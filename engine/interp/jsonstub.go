package interp

// Structural model of encoding/json (Marshal, Unmarshal, (*Decoder).Decode).
//
// encoding/json is reflection driven and cannot be interpreted by the SSA
// executor.  It is *environment* for cedar-go: the code under verification is
// cedar-go's own MarshalJSON / UnmarshalJSON methods, struct layouts and tags,
// which encoding/json merely walks.  This file is that walker, re-implemented
// over the executor's value representation and go/types information:
//
//   - encoder: Marshaler / TextMarshaler dispatch (with addressability), struct
//     tags (name, omitempty, "-"), embedded structs with Go's dominance rule,
//     sorted map keys, the exact string escaping of encoding/json (HTML safe,
//     U+2028/9, U+FFFD for invalid UTF-8), re-validation and compaction of
//     Marshaler output.
//   - decoder: a JSON scanner over possibly symbolic bytes (every test on a
//     symbolic byte is a solver-decided fork), then reflect-free assignment that
//     follows decode.go: indirect() with its null rules, Unmarshaler /
//     TextUnmarshaler dispatch with the raw value bytes, exact-then-case-folded
//     field matching, DisallowUnknownFields, UseNumber, saved (non-fatal) type
//     errors versus fatal Unmarshaler errors, duplicate keys, null handling.
//
// Not modelled: ",string" options, []byte<->base64, floats with symbolic digits,
// Unicode (non-ASCII) case folding of *symbolic* keys, error message texts other
// than the "json: unknown field" prefix cedar-go inspects, reflect.Type in
// UnmarshalTypeError (a plain error value is returned), streaming reads of a
// Decoder (the reader is drained on the first Decode).  Each of those raises an
// engine error (inconclusive), never a verdict.  The model is validated by a
// self-test harness whose expectations were produced by the real package and
// by the native replay of every reported violation.

import (
	"fmt"
	"go/token"
	"go/types"
	"math"
	"reflect"
	"sort"
	"strconv"
	"strings"
	"unicode/utf16"
	"unicode/utf8"

	"golang.org/x/tools/go/ssa"
)

func init() {
	externals["encoding/json.Marshal"] = extJSONMarshal
	externals["encoding/json.Unmarshal"] = extJSONUnmarshal
	externals["(*encoding/json.Decoder).Decode"] = extJSONDecoderDecode
	externals["encoding/json.Valid"] = func(fr *frame, a []value) value {
		p := &jsonParser{fr: fr, d: mustBytes(a[0])}
		_, err := p.parseDocument(true)
		return err == nil
	}
}

// ---------------------------------------------------------------- fields

type jsonField struct {
	name      string
	index     []int
	typ       types.Type
	omitEmpty bool
	quoted    bool
	tagged    bool
}

func parseJSONTag(tag string) (name, opts string) {
	t := reflect.StructTag(tag).Get("json")
	if k := strings.IndexByte(t, ','); k >= 0 {
		return t[:k], t[k+1:]
	}
	return t, ""
}

func jsonTagOpt(opts, o string) bool {
	for opts != "" {
		var s string
		if k := strings.IndexByte(opts, ','); k >= 0 {
			s, opts = opts[:k], opts[k+1:]
		} else {
			s, opts = opts, ""
		}
		if s == o {
			return true
		}
	}
	return false
}

func validJSONTagName(s string) bool {
	if s == "" {
		return false
	}
	for _, c := range s {
		switch {
		case strings.ContainsRune("!#$%&()*+-./:;<=>?@[]^_{|}~ ", c):
		case !(c >= '0' && c <= '9' || c >= 'a' && c <= 'z' || c >= 'A' && c <= 'Z' || c > 0x7f):
			return false
		}
	}
	return true
}

var jsonFieldCache = map[*types.Struct][]jsonField{}

// jsonFields follows encoding/json.typeFields: breadth-first over embedded
// structs, shallowest name wins, a tagged field beats untagged ones at the same
// depth, otherwise the name is dropped; result ordered by index sequence.
func jsonFields(st *types.Struct) []jsonField {
	if f, ok := jsonFieldCache[st]; ok {
		return f
	}
	type cand struct {
		st    *types.Struct
		index []int
	}
	var all []jsonField
	cur := []cand{}
	next := []cand{{st, nil}}
	visited := map[*types.Struct]bool{}
	for len(next) > 0 {
		cur, next = next, nil
		for _, c := range cur {
			if visited[c.st] {
				continue
			}
			visited[c.st] = true
			for i := 0; i < c.st.NumFields(); i++ {
				f := c.st.Field(i)
				ft := f.Type()
				if f.Anonymous() {
					t := ft
					if p, ok := t.Underlying().(*types.Pointer); ok {
						t = p.Elem()
					}
					if _, isStruct := t.Underlying().(*types.Struct); !f.Exported() && !isStruct {
						continue
					}
				} else if !f.Exported() {
					continue
				}
				rawTag := reflect.StructTag(c.st.Tag(i)).Get("json")
				if rawTag == "-" {
					continue
				}
				name, opts := parseJSONTag(c.st.Tag(i))
				if !validJSONTagName(name) {
					name = ""
				}
				idx := append(append([]int{}, c.index...), i)
				t := ft
				if p, ok := t.Underlying().(*types.Pointer); ok && isUnnamedOrAnon(f) {
					t = p.Elem()
				}
				est, isStruct := t.Underlying().(*types.Struct)
				if name != "" || !f.Anonymous() || !isStruct {
					tagged := name != ""
					if name == "" {
						name = f.Name()
					}
					all = append(all, jsonField{name: name, index: idx, typ: ft, omitEmpty: jsonTagOpt(opts, "omitempty"), quoted: jsonTagOpt(opts, "string"), tagged: tagged})
					continue
				}
				next = append(next, cand{est, idx})
			}
		}
	}
	sort.SliceStable(all, func(i, j int) bool {
		if all[i].name != all[j].name {
			return all[i].name < all[j].name
		}
		if len(all[i].index) != len(all[j].index) {
			return len(all[i].index) < len(all[j].index)
		}
		if all[i].tagged != all[j].tagged {
			return all[i].tagged
		}
		return lessIndex(all[i].index, all[j].index)
	})
	var out []jsonField
	for i := 0; i < len(all); {
		j := i + 1
		for j < len(all) && all[j].name == all[i].name {
			j++
		}
		if j == i+1 {
			out = append(out, all[i])
		} else {
			// dominant field
			a, b := all[i], all[i+1]
			if len(a.index) != len(b.index) || a.tagged != b.tagged {
				out = append(out, a)
			}
		}
		i = j
	}
	sort.SliceStable(out, func(i, j int) bool { return lessIndex(out[i].index, out[j].index) })
	jsonFieldCache[st] = out
	return out
}

func isUnnamedOrAnon(f *types.Var) bool { return f.Anonymous() }

func lessIndex(a, b []int) bool {
	for k := 0; k < len(a) && k < len(b); k++ {
		if a[k] != b[k] {
			return a[k] < b[k]
		}
	}
	return len(a) < len(b)
}

// fieldSlot walks an index path from a struct slot; nil embedded pointers are
// allocated when alloc is set (an unexported one cannot be set: ok=false and
// unexported=true), otherwise ok=false is returned.
func fieldSlot(slot *value, st types.Type, index []int, alloc bool) (res *value, ok bool, unexported types.Type) {
	t := st
	exported := true
	for _, ix := range index {
		if p, isP := t.Underlying().(*types.Pointer); isP {
			pv, _ := (*slot).(*value)
			if pv == nil {
				if !alloc {
					return nil, false, nil
				}
				if !exported {
					return nil, false, p.Elem()
				}
				pv = new(value)
				*pv = zero(p.Elem())
				*slot = pv
			}
			slot, t = pv, p.Elem()
		}
		s := (*slot).(structure)
		slot = &s[ix]
		f := t.Underlying().(*types.Struct).Field(ix)
		t = f.Type()
		exported = f.Exported()
	}
	return slot, true, nil
}

// ---------------------------------------------------------------- errors

func jsonPlainError(fr *frame, msg string) iface {
	errorsPkg := fr.i.prog.ImportedPackage("errors")
	if errorsPkg == nil {
		panic(engineError{"json stub: package errors not loaded"})
	}
	return call(fr.i, fr, token.NoPos, errorsPkg.Func("New"), []value{msg}).(iface)
}

func jsonSyntaxError(fr *frame, msg string, off int) iface {
	pkg := fr.i.prog.ImportedPackage("encoding/json")
	if pkg == nil || pkg.Type("SyntaxError") == nil {
		return jsonPlainError(fr, msg)
	}
	var st value = structure{msg, int64(off)}
	return iface{t: types.NewPointer(pkg.Type("SyntaxError").Type()), v: &st}
}

type jsonAbort struct{ err iface }

// ---------------------------------------------------------------- scanner

type jnode struct {
	kind       byte // n t f s 0 [ {
	start, end int
	str        []value // decoded content of a string
	keys       []*jnode
	elems      []*jnode
}

type jsonSyntax struct {
	msg string
	off int
}

type jsonParser struct {
	fr    *frame
	d     []value
	pos   int
	depth int
}

func (p *jsonParser) fail(format string, args ...interface{}) {
	panic(jsonSyntax{"json: " + fmt.Sprintf(format, args...), p.pos})
}

func (p *jsonParser) is(i int, c byte) bool {
	switch x := p.d[i].(type) {
	case byte:
		return x == c
	case *Term:
		return p.fr.i.ex.decide(mkEq(x, mkConst(uint64(c), 8, false)))
	}
	panic(engineError{fmt.Sprintf("json stub: byte of type %T", p.d[i])})
}

func (p *jsonParser) in(i int, lo, hi byte) bool {
	switch x := p.d[i].(type) {
	case byte:
		return lo <= x && x <= hi
	case *Term:
		return p.fr.i.ex.decide(mkAnd(mkLe(mkConst(uint64(lo), 8, false), x), mkLe(x, mkConst(uint64(hi), 8, false))))
	}
	panic(engineError{fmt.Sprintf("json stub: byte of type %T", p.d[i])})
}

func (p *jsonParser) isWS(i int) bool {
	switch x := p.d[i].(type) {
	case byte:
		return x == ' ' || x == '\t' || x == '\r' || x == '\n'
	case *Term:
		e := func(c byte) *Term { return mkEq(x, mkConst(uint64(c), 8, false)) }
		return p.fr.i.ex.decide(mkOr(mkOr(e(' '), e('\t')), mkOr(e('\r'), e('\n'))))
	}
	panic(engineError{fmt.Sprintf("json stub: byte of type %T", p.d[i])})
}

func (p *jsonParser) skipWS() {
	for p.pos < len(p.d) && p.isWS(p.pos) {
		p.pos++
	}
}

// parseDocument parses one value; with whole set, trailing non-space is an error.
func (p *jsonParser) parseDocument(whole bool) (n *jnode, err *jsonSyntax) {
	defer func() {
		if r := recover(); r != nil {
			if se, ok := r.(jsonSyntax); ok {
				n, err = nil, &se
				return
			}
			panic(r)
		}
	}()
	n = p.parseValue()
	if whole {
		p.skipWS()
		if p.pos < len(p.d) {
			p.fail("invalid character after top-level value")
		}
	}
	return n, nil
}

func (p *jsonParser) parseValue() *jnode {
	p.skipWS()
	if p.pos >= len(p.d) {
		p.fail("unexpected end of JSON input")
	}
	p.depth++
	if p.depth > 10000 {
		p.fail("exceeded max depth")
	}
	defer func() { p.depth-- }()
	i := p.pos
	switch {
	case p.is(i, '{'):
		return p.parseObject()
	case p.is(i, '['):
		return p.parseArray()
	case p.is(i, '"'):
		return p.parseString()
	case p.is(i, '-') || p.in(i, '0', '9'):
		return p.parseNumber()
	case p.is(i, 't'):
		return p.parseLit("true", 't')
	case p.is(i, 'f'):
		return p.parseLit("false", 'f')
	case p.is(i, 'n'):
		return p.parseLit("null", 'n')
	}
	p.fail("invalid character looking for beginning of value")
	return nil
}

func (p *jsonParser) parseLit(word string, kind byte) *jnode {
	start := p.pos
	for k := 0; k < len(word); k++ {
		if p.pos >= len(p.d) {
			p.fail("unexpected end of JSON input")
		}
		if !p.is(p.pos, word[k]) {
			p.fail("invalid character in literal %s", word)
		}
		p.pos++
	}
	return &jnode{kind: kind, start: start, end: p.pos}
}

func (p *jsonParser) parseNumber() *jnode {
	start := p.pos
	more := func() bool { return p.pos < len(p.d) }
	if p.is(p.pos, '-') {
		p.pos++
		if !more() {
			p.fail("unexpected end of JSON input")
		}
	}
	switch {
	case p.is(p.pos, '0'):
		p.pos++
	case p.in(p.pos, '1', '9'):
		p.pos++
		for more() && p.in(p.pos, '0', '9') {
			p.pos++
		}
	default:
		p.fail("invalid character in numeric literal")
	}
	if more() && p.is(p.pos, '.') {
		p.pos++
		if !more() {
			p.fail("unexpected end of JSON input")
		}
		if !p.in(p.pos, '0', '9') {
			p.fail("invalid character after decimal point in numeric literal")
		}
		for more() && p.in(p.pos, '0', '9') {
			p.pos++
		}
	}
	if more() && (p.is(p.pos, 'e') || p.is(p.pos, 'E')) {
		p.pos++
		if !more() {
			p.fail("unexpected end of JSON input")
		}
		if p.is(p.pos, '+') || p.is(p.pos, '-') {
			p.pos++
			if !more() {
				p.fail("unexpected end of JSON input")
			}
		}
		if !p.in(p.pos, '0', '9') {
			p.fail("invalid character in exponent of numeric literal")
		}
		for more() && p.in(p.pos, '0', '9') {
			p.pos++
		}
	}
	return &jnode{kind: '0', start: start, end: p.pos}
}

func (p *jsonParser) hex4(at int) (rune, bool) {
	var r rune
	for k := 0; k < 4; k++ {
		i := at + k
		if i >= len(p.d) {
			p.pos = i
			p.fail("unexpected end of JSON input")
		}
		var c byte
		switch x := p.d[i].(type) {
		case byte:
			c = x
		case *Term:
			ok := p.in(i, '0', '9') || p.in(i, 'a', 'f') || p.in(i, 'A', 'F')
			if !ok {
				p.pos = i
				p.fail("invalid character in \\u hexadecimal character escape")
			}
			c = p.fr.concTermSmall(x).(byte)
		}
		switch {
		case '0' <= c && c <= '9':
			c = c - '0'
		case 'a' <= c && c <= 'f':
			c = c - 'a' + 10
		case 'A' <= c && c <= 'F':
			c = c - 'A' + 10
		default:
			p.pos = i
			p.fail("invalid character in \\u hexadecimal character escape")
		}
		r = r*16 + rune(c)
	}
	return r, true
}

func (p *jsonParser) parseString() *jnode {
	start := p.pos
	p.pos++ // opening quote
	var out []value
	emitRune := func(r rune) {
		var buf [4]byte
		n := utf8.EncodeRune(buf[:], r)
		for _, b := range buf[:n] {
			out = append(out, b)
		}
	}
	for {
		if p.pos >= len(p.d) {
			p.fail("unexpected end of JSON input")
		}
		i := p.pos
		switch {
		case p.is(i, '"'):
			p.pos++
			if out == nil {
				out = []value{}
			}
			return &jnode{kind: 's', start: start, end: p.pos, str: out}
		case p.is(i, '\\'):
			if i+1 >= len(p.d) {
				p.pos = len(p.d)
				p.fail("unexpected end of JSON input")
			}
			j := i + 1
			switch {
			case p.is(j, '"'):
				out = append(out, byte('"'))
			case p.is(j, '\\'):
				out = append(out, byte('\\'))
			case p.is(j, '/'):
				out = append(out, byte('/'))
			case p.is(j, 'b'):
				out = append(out, byte('\b'))
			case p.is(j, 'f'):
				out = append(out, byte('\f'))
			case p.is(j, 'n'):
				out = append(out, byte('\n'))
			case p.is(j, 'r'):
				out = append(out, byte('\r'))
			case p.is(j, 't'):
				out = append(out, byte('\t'))
			case p.is(j, 'u'):
				r, _ := p.hex4(j + 1)
				p.pos = j + 5
				if utf16.IsSurrogate(r) {
					// a following \uXXXX low surrogate combines
					if p.pos+1 < len(p.d) && p.is(p.pos, '\\') && p.is(p.pos+1, 'u') {
						save := p.pos
						r2, _ := p.hex4(p.pos + 2)
						if dec := utf16.DecodeRune(r, r2); dec != utf8.RuneError {
							p.pos += 6
							emitRune(dec)
							continue
						}
						p.pos = save
					}
					r = utf8.RuneError
				}
				emitRune(r)
				continue
			default:
				p.pos = j
				p.fail("invalid character in string escape code")
			}
			p.pos = j + 1
		case p.in(i, 0, 0x1f):
			p.fail("invalid character in string literal")
		case p.in(i, 0x20, 0x7f):
			out = append(out, p.d[i])
			p.pos++
		default:
			r, size := decodeRuneSym(p.fr, p.d[i:])
			if rc, ok := r.(rune); ok && rc == utf8.RuneError && size == 1 {
				emitRune(utf8.RuneError)
			} else {
				out = append(out, p.d[i:i+size]...)
			}
			p.pos += size
		}
	}
}

func (p *jsonParser) parseArray() *jnode {
	n := &jnode{kind: '[', start: p.pos}
	p.pos++
	p.skipWS()
	if p.pos < len(p.d) && p.is(p.pos, ']') {
		p.pos++
		n.end = p.pos
		return n
	}
	for {
		n.elems = append(n.elems, p.parseValue())
		p.skipWS()
		if p.pos >= len(p.d) {
			p.fail("unexpected end of JSON input")
		}
		if p.is(p.pos, ',') {
			p.pos++
			continue
		}
		if p.is(p.pos, ']') {
			p.pos++
			n.end = p.pos
			return n
		}
		p.fail("invalid character after array element")
	}
}

func (p *jsonParser) parseObject() *jnode {
	n := &jnode{kind: '{', start: p.pos}
	p.pos++
	p.skipWS()
	if p.pos < len(p.d) && p.is(p.pos, '}') {
		p.pos++
		n.end = p.pos
		return n
	}
	for {
		p.skipWS()
		if p.pos >= len(p.d) {
			p.fail("unexpected end of JSON input")
		}
		if !p.is(p.pos, '"') {
			p.fail("invalid character looking for beginning of object key string")
		}
		k := p.parseString()
		p.skipWS()
		if p.pos >= len(p.d) {
			p.fail("unexpected end of JSON input")
		}
		if !p.is(p.pos, ':') {
			p.fail("invalid character after object key")
		}
		p.pos++
		v := p.parseValue()
		n.keys = append(n.keys, k)
		n.elems = append(n.elems, v)
		p.skipWS()
		if p.pos >= len(p.d) {
			p.fail("unexpected end of JSON input")
		}
		if p.is(p.pos, ',') {
			p.pos++
			continue
		}
		if p.is(p.pos, '}') {
			p.pos++
			n.end = p.pos
			return n
		}
		p.fail("invalid character after object key:value pair")
	}
}

// ---------------------------------------------------------------- encoder

type jsonEnc struct {
	fr  *frame
	out []value
	err value // first error returned by an interpreted method
}

func (e *jsonEnc) str(s string) { e.out = append(e.out, strBytes(s)...) }

func extJSONMarshal(fr *frame, a []value) value {
	e := &jsonEnc{fr: fr}
	it := a[0].(iface)
	e.encode(it.v, it.t, false, 0)
	if e.err != nil {
		return tuple{[]value(nil), e.err}
	}
	return tuple{e.out, iface{}}
}

func isEmptyJSON(v value) bool {
	switch x := v.(type) {
	case bool:
		return !x
	case string:
		return x == ""
	case symString:
		return len(x.b) == 0
	case *value:
		return x == nil
	case iface:
		return x.t == nil
	case []value:
		return len(x) == 0
	case *omap:
		return x.len() == 0
	case array:
		return len(x) == 0
	case *Term:
		return false
	case nil:
		return true
	case float64:
		return x == 0
	case float32:
		return x == 0
	}
	if isScalar(v) {
		return asInt64OrZero(v) == 0
	}
	return false
}

func asInt64OrZero(v value) int64 {
	defer func() { recover() }()
	return asInt64(v)
}

const jsonHex = "0123456789abcdef"

// appendJSONString is encoding/json.appendString with escapeHTML=true over
// possibly symbolic bytes.
func (e *jsonEnc) appendJSONString(b []value) {
	p := &jsonParser{fr: e.fr, d: b}
	e.str(`"`)
	for i := 0; i < len(b); {
		if c, ok := b[i].(byte); ok && c < utf8.RuneSelf {
			e.escapeASCII(c)
			i++
			continue
		}
		if _, isT := b[i].(*Term); isT && p.in(i, 0, 0x7f) {
			e.escapeASCIISym(p, i)
			i++
			continue
		}
		r, size := decodeRuneSym(e.fr, b[i:])
		if rc, ok := r.(rune); ok {
			if rc == utf8.RuneError && size == 1 {
				e.str("\\ufffd")
				i += size
				continue
			}
			if rc == 0x2028 || rc == 0x2029 {
				e.str(`\u202`)
				e.out = append(e.out, jsonHex[rc&0xF])
				i += size
				continue
			}
		} else if rt, ok := r.(*Term); ok {
			ex := e.fr.i.ex
			if ex.decide(mkEq(rt, mkConst(0x2028, 32, true))) {
				e.str("\\u2028")
				i += size
				continue
			}
			if ex.decide(mkEq(rt, mkConst(0x2029, 32, true))) {
				e.str("\\u2029")
				i += size
				continue
			}
		}
		e.out = append(e.out, b[i:i+size]...)
		i += size
	}
	e.str(`"`)
}

func (e *jsonEnc) escapeASCII(c byte) {
	switch {
	case c == '\\' || c == '"':
		e.out = append(e.out, byte('\\'), c)
	case c == '\b':
		e.str(`\b`)
	case c == '\f':
		e.str(`\f`)
	case c == '\n':
		e.str(`\n`)
	case c == '\r':
		e.str(`\r`)
	case c == '\t':
		e.str(`\t`)
	case c < 0x20 || c == '<' || c == '>' || c == '&':
		e.str(`\u00`)
		e.out = append(e.out, jsonHex[c>>4], jsonHex[c&0xF])
	default:
		e.out = append(e.out, c)
	}
}

// escapeASCIISym: the byte at i is a term known to be < 0x80.
func (e *jsonEnc) escapeASCIISym(p *jsonParser, i int) {
	for _, c := range []byte{'\\', '"', '\b', '\f', '\n', '\r', '\t', '<', '>', '&'} {
		if p.is(i, c) {
			e.escapeASCII(c)
			return
		}
	}
	if p.in(i, 0, 0x1f) {
		e.str(`\u00`)
		x := p.d[i].(*Term)
		hi := mk(OpShr, 8, false, x, mkConst(4, 8, false))
		lo := mk(OpAnd, 8, false, x, mkConst(15, 8, false))
		dig := func(d *Term) value {
			isLetter := mkLt(mkConst(9, 8, false), d)
			return termToValue(mkIte(isLetter, mk(OpAdd, 8, false, d, mkConst('a'-10, 8, false)), mk(OpAdd, 8, false, d, mkConst('0', 8, false))))
		}
		e.out = append(e.out, dig(hi), dig(lo))
		return
	}
	e.out = append(e.out, p.d[i])
}

// compactNode re-emits a parsed Marshaler result the way encoding/json.compact
// does: insignificant space removed, strings kept verbatim except for the HTML
// and U+2028/9 escapes.
func (e *jsonEnc) compactNode(d []value, n *jnode) {
	switch n.kind {
	case '{':
		e.str("{")
		for k := range n.keys {
			if k > 0 {
				e.str(",")
			}
			e.compactRawString(d[n.keys[k].start:n.keys[k].end])
			e.str(":")
			e.compactNode(d, n.elems[k])
		}
		e.str("}")
	case '[':
		e.str("[")
		for k := range n.elems {
			if k > 0 {
				e.str(",")
			}
			e.compactNode(d, n.elems[k])
		}
		e.str("]")
	case 's':
		e.compactRawString(d[n.start:n.end])
	default:
		e.out = append(e.out, d[n.start:n.end]...)
	}
}

func (e *jsonEnc) compactRawString(raw []value) {
	p := &jsonParser{fr: e.fr, d: raw}
	for i := 0; i < len(raw); i++ {
		switch c := raw[i].(type) {
		case byte:
			if c == '<' || c == '>' || c == '&' {
				e.str(`\u00`)
				e.out = append(e.out, jsonHex[c>>4], jsonHex[c&0xF])
				continue
			}
			if c == 0xE2 && i+2 < len(raw) {
				if c1, ok := raw[i+1].(byte); ok && c1 == 0x80 {
					if p.in(i+2, 0xA8, 0xA9) {
						e.str(`\u202`)
						if p.is(i+2, 0xA8) {
							e.str("8")
						} else {
							e.str("9")
						}
						i += 2
						continue
					}
				}
			}
			e.out = append(e.out, c)
		case *Term:
			done := false
			for _, h := range []byte{'<', '>', '&'} {
				if p.is(i, h) {
					e.str(`\u00`)
					e.out = append(e.out, jsonHex[h>>4], jsonHex[h&0xF])
					done = true
					break
				}
			}
			if done {
				continue
			}
			if i+2 < len(raw) && p.is(i, 0xE2) && p.is(i+1, 0x80) && p.in(i+2, 0xA8, 0xA9) {
				e.str(`\u202`)
				if p.is(i+2, 0xA8) {
					e.str("8")
				} else {
					e.str("9")
				}
				i += 2
				continue
			}
			e.out = append(e.out, c)
		default:
			panic(engineError{fmt.Sprintf("json stub: byte of type %T", raw[i])})
		}
	}
}

func methodWithSig(i *interpreter, t types.Type, name string, nparams, nresults int) *ssa.Function {
	fn := findMethod(i, t, name)
	if fn == nil || fn.Signature.Params().Len() != nparams || fn.Signature.Results().Len() != nresults {
		return nil
	}
	return fn
}

func (e *jsonEnc) callMarshaler(fn *ssa.Function, recv value, t types.Type, text bool) {
	r := call(e.fr.i, e.fr, token.NoPos, fn, []value{recv}).(tuple)
	if errv, ok := r[1].(iface); ok && errv.t != nil {
		e.err = errv
		return
	}
	b, _ := r[0].([]value)
	if text {
		e.appendJSONString(b)
		return
	}
	p := &jsonParser{fr: e.fr, d: b}
	n, serr := p.parseDocument(true)
	if serr != nil {
		e.err = jsonPlainError(e.fr, "json: error calling MarshalJSON for type "+t.String()+": "+strings.TrimPrefix(serr.msg, "json: "))
		return
	}
	e.compactNode(b, n)
}

func (e *jsonEnc) encode(v value, t types.Type, addressable bool, depth int) {
	if e.err != nil {
		return
	}
	if depth > 60 {
		panic(engineError{"json stub: nesting too deep"})
	}
	if t == nil {
		e.str("null")
		return
	}
	// interface: dynamic type
	if _, isI := t.Underlying().(*types.Interface); isI {
		iv, ok := v.(iface)
		if !ok || iv.t == nil {
			e.str("null")
			return
		}
		e.encode(iv.v, iv.t, false, depth+1)
		return
	}
	// nil pointers encode as null before any method call
	_, isPtr := t.Underlying().(*types.Pointer)
	if isPtr {
		if p, ok := v.(*value); ok && p == nil {
			e.str("null")
			return
		}
	}
	if fn := methodWithSig(e.fr.i, t, "MarshalJSON", 0, 2); fn != nil {
		e.callMarshaler(fn, v, t, false)
		return
	}
	if !isPtr && addressable {
		if fn := methodWithSig(e.fr.i, types.NewPointer(t), "MarshalJSON", 0, 2); fn != nil {
			cell := new(value)
			*cell = v
			e.callMarshaler(fn, cell, t, false)
			return
		}
	}
	if fn := methodWithSig(e.fr.i, t, "MarshalText", 0, 2); fn != nil {
		e.callMarshaler(fn, v, t, true)
		return
	}
	if !isPtr && addressable {
		if fn := methodWithSig(e.fr.i, types.NewPointer(t), "MarshalText", 0, 2); fn != nil {
			cell := new(value)
			*cell = v
			e.callMarshaler(fn, cell, t, true)
			return
		}
	}
	switch ut := t.Underlying().(type) {
	case *types.Pointer:
		p := v.(*value)
		e.encode(*p, ut.Elem(), true, depth+1)
	case *types.Basic:
		if t.String() == "encoding/json.Number" {
			b, _ := bytesOfString(v)
			if len(b) == 0 {
				e.str("0")
				return
			}
			if !jsonIsValidNumber(e.fr, b) {
				e.err = jsonPlainError(e.fr, "json: invalid number literal")
				return
			}
			e.out = append(e.out, b...)
			return
		}
		e.encodeBasic(v, ut)
	case *types.Struct:
		e.str("{")
		first := true
		cell := new(value)
		*cell = v
		for _, f := range jsonFields(ut) {
			slot, ok, _ := fieldSlot(cell, t, f.index, false)
			if !ok {
				continue
			}
			if f.quoted {
				panic(engineError{"json stub: ,string option"})
			}
			if f.omitEmpty && isEmptyJSON(*slot) {
				continue
			}
			if !first {
				e.str(",")
			}
			first = false
			e.appendJSONString(strBytes(f.name))
			e.str(":")
			e.encode(*slot, f.typ, addressable, depth+1)
		}
		e.str("}")
	case *types.Slice:
		s, _ := v.([]value)
		if s == nil {
			e.str("null")
			return
		}
		if b, ok := ut.Elem().Underlying().(*types.Basic); ok && b.Kind() == types.Uint8 {
			if methodWithSig(e.fr.i, types.NewPointer(ut.Elem()), "MarshalJSON", 0, 2) == nil {
				panic(engineError{"json stub: []byte base64 encoding"})
			}
		}
		e.str("[")
		for i, x := range s {
			if i > 0 {
				e.str(",")
			}
			e.encode(x, ut.Elem(), true, depth+1)
		}
		e.str("]")
	case *types.Array:
		e.str("[")
		for i, x := range v.(array) {
			if i > 0 {
				e.str(",")
			}
			e.encode(x, ut.Elem(), addressable, depth+1)
		}
		e.str("]")
	case *types.Map:
		m, _ := v.(*omap)
		if m == nil {
			e.str("null")
			return
		}
		type kv struct {
			k []value
			v value
		}
		var kvs []kv
		kb, _ := ut.Key().Underlying().(*types.Basic)
		textFn := methodWithSig(e.fr.i, ut.Key(), "MarshalText", 0, 2)
		for _, en := range m.entries {
			if en.deleted {
				continue
			}
			var ks []value
			switch {
			case kb != nil && kb.Kind() == types.String:
				ks, _ = bytesOfString(en.key)
			case textFn != nil:
				r := call(e.fr.i, e.fr, token.NoPos, textFn, []value{en.key}).(tuple)
				if errv, ok := r[1].(iface); ok && errv.t != nil {
					e.err = errv
					return
				}
				ks, _ = r[0].([]value)
			case kb != nil && kb.Info()&types.IsInteger != 0:
				if _, sym := en.key.(*Term); sym {
					panic(engineError{"json stub: symbolic integer map key"})
				}
				if kb.Info()&types.IsUnsigned != 0 {
					ks = strBytes(strconv.FormatUint(uint64(asInt64(en.key)), 10))
				} else {
					ks = strBytes(strconv.FormatInt(asInt64(en.key), 10))
				}
			default:
				panic(engineError{fmt.Sprintf("json stub: unsupported map key type %s", ut.Key())})
			}
			kvs = append(kvs, kv{ks, en.val})
		}
		sort.SliceStable(kvs, func(i, j int) bool { return strCompareSym(e.fr, kvs[i].k, kvs[j].k) < 0 })
		e.str("{")
		for i, p := range kvs {
			if i > 0 {
				e.str(",")
			}
			e.appendJSONString(p.k)
			e.str(":")
			e.encode(p.v, ut.Elem(), false, depth+1)
			if e.err != nil {
				return
			}
		}
		e.str("}")
	default:
		panic(engineError{fmt.Sprintf("json stub: unsupported type %s", t)})
	}
}

func (e *jsonEnc) encodeBasic(v value, ut *types.Basic) {
	switch x := v.(type) {
	case string:
		e.appendJSONString(strBytes(x))
	case symString:
		if x.opaque {
			panic(engineError{"json stub: opaque formatted string"})
		}
		e.appendJSONString(x.b)
	case bool:
		e.str(strconv.FormatBool(x))
	case *Term:
		if x.w == 0 {
			if e.fr.i.ex.decide(x) {
				e.str("true")
			} else {
				e.str("false")
			}
			return
		}
		e.out = append(e.out, formatIntSym(e.fr, x, 0)...)
	case float64:
		e.str(jsonFloat(x, 64))
	case float32:
		e.str(jsonFloat(float64(x), 32))
	default:
		if ut.Info()&types.IsInteger != 0 {
			if ut.Info()&types.IsUnsigned != 0 {
				e.str(strconv.FormatUint(uint64(asInt64(v)), 10))
			} else {
				e.str(strconv.FormatInt(asInt64(v), 10))
			}
		} else {
			panic(engineError{fmt.Sprintf("json stub: unsupported basic value %T", v)})
		}
	}
}

func jsonFloat(f float64, bits int) string {
	if math.IsInf(f, 0) || math.IsNaN(f) {
		panic(engineError{"json stub: unsupported float value"})
	}
	abs := math.Abs(f)
	format := byte('f')
	if abs != 0 {
		if bits == 64 && (abs < 1e-6 || abs >= 1e21) || bits == 32 && (float32(abs) < 1e-6 || float32(abs) >= 1e21) {
			format = 'e'
		}
	}
	b := strconv.AppendFloat(nil, f, format, -1, bits)
	if format == 'e' {
		n := len(b)
		if n >= 4 && b[n-4] == 'e' && (b[n-3] == '-' || b[n-3] == '+') && b[n-2] == '0' {
			b[n-2] = b[n-1]
			b = b[:n-1]
		}
	}
	return string(b)
}

// ---------------------------------------------------------------- decoder

type jsonDec struct {
	fr        *frame
	d         []value
	useNumber bool
	disallow  bool
	saved     value // first non-fatal error
}

func (d *jsonDec) saveError(msg string) {
	if d.saved == nil {
		d.saved = jsonPlainError(d.fr, msg)
	}
}

func (d *jsonDec) typeError(what string, t types.Type) {
	d.saveError("json: cannot unmarshal " + what + " into Go value of type " + types.TypeString(t, func(p *types.Package) string { return p.Name() }))
}

func extJSONUnmarshal(fr *frame, a []value) value {
	data := mustBytes(a[0])
	dst := a[1].(iface)
	p := &jsonParser{fr: fr, d: data}
	n, serr := p.parseDocument(true)
	if serr != nil {
		return jsonSyntaxError(fr, strings.TrimPrefix(serr.msg, "json: "), serr.off)
	}
	return jsonDecodeTop(fr, data, n, dst, false, false)
}

func jsonDecodeTop(fr *frame, data []value, n *jnode, dst iface, useNumber, disallow bool) (res value) {
	if dst.t == nil {
		return jsonPlainError(fr, "json: Unmarshal(nil)")
	}
	pt, ok := dst.t.Underlying().(*types.Pointer)
	if !ok {
		return jsonPlainError(fr, "json: Unmarshal(non-pointer "+dst.t.String()+")")
	}
	ptr, _ := dst.v.(*value)
	if ptr == nil {
		return jsonPlainError(fr, "json: Unmarshal(nil "+dst.t.String()+")")
	}
	d := &jsonDec{fr: fr, d: data, useNumber: useNumber, disallow: disallow}
	defer func() {
		if r := recover(); r != nil {
			if ab, ok := r.(jsonAbort); ok {
				res = ab.err
				return
			}
			panic(r)
		}
	}()
	// the top-level pointer itself is not settable: its own methods are looked
	// at first (also for null), then the pointee is an ordinary settable slot
	if d.tryUnmarshaler(n, ptr, dst.t, n.kind == 'n') {
		if d.saved != nil {
			return d.saved
		}
		return iface{}
	}
	d.value(n, ptr, pt.Elem(), true)
	if d.saved != nil {
		return d.saved
	}
	return iface{}
}

// tryUnmarshaler: ptr is a non-nil pointer value of type ptrType.
func (d *jsonDec) tryUnmarshaler(n *jnode, ptr *value, ptrType types.Type, null bool) bool {
	if fn := methodWithSig(d.fr.i, ptrType, "UnmarshalJSON", 1, 1); fn != nil {
		raw := append([]value{}, d.d[n.start:n.end]...)
		r := call(d.fr.i, d.fr, token.NoPos, fn, []value{ptr, raw})
		if errv, ok := r.(iface); ok && errv.t != nil {
			panic(jsonAbort{errv})
		}
		return true
	}
	if !null {
		if fn := methodWithSig(d.fr.i, ptrType, "UnmarshalText", 1, 1); fn != nil {
			if n.kind != 's' {
				d.typeError(jsonKindName(n), ptrType)
				return true
			}
			r := call(d.fr.i, d.fr, token.NoPos, fn, []value{ptr, append([]value{}, n.str...)})
			if errv, ok := r.(iface); ok && errv.t != nil {
				panic(jsonAbort{errv})
			}
			return true
		}
	}
	return false
}

func jsonKindName(n *jnode) string {
	switch n.kind {
	case 's':
		return "string"
	case '0':
		return "number"
	case 't', 'f':
		return "bool"
	case '[':
		return "array"
	case '{':
		return "object"
	}
	return "null"
}

func hasTypeName(t types.Type) bool {
	switch t := t.(type) {
	case *types.Named:
		return true
	case *types.Basic:
		return true
	case *types.Alias:
		return hasTypeName(types.Unalias(t))
	}
	return false
}

func isEmptyInterface(t types.Type) bool {
	it, ok := t.Underlying().(*types.Interface)
	return ok && it.NumMethods() == 0
}

// value stores node n into the settable slot of type t (decode.go: d.value).
func (d *jsonDec) value(n *jnode, slot *value, t types.Type, settable bool) {
	null := n.kind == 'n'
	// ---- indirect ----
	if _, isPtr := t.Underlying().(*types.Pointer); !isPtr && hasTypeName(t) {
		if _, isBasic := t.(*types.Basic); !isBasic {
			if d.tryUnmarshaler(n, slot, types.NewPointer(t), null) {
				return
			}
		}
	}
	for {
		if _, isI := t.Underlying().(*types.Interface); isI {
			iv, _ := (*slot).(iface)
			if iv.t != nil {
				if ipt, ok := iv.t.Underlying().(*types.Pointer); ok {
					if ip, _ := iv.v.(*value); ip != nil {
						_, elemIsPtr := ipt.Elem().Underlying().(*types.Pointer)
						if !null || elemIsPtr {
							if d.tryUnmarshaler(n, ip, iv.t, null) {
								return
							}
							slot, t, settable = ip, ipt.Elem(), true
							continue
						}
					}
				}
			}
			break
		}
		pt, ok := t.Underlying().(*types.Pointer)
		if !ok {
			break
		}
		if null && settable {
			break
		}
		p, _ := (*slot).(*value)
		if p == nil {
			p = new(value)
			*p = zero(pt.Elem())
			*slot = p
		}
		if d.tryUnmarshaler(n, p, t, null) {
			return
		}
		slot, t, settable = p, pt.Elem(), true
	}
	// ---- store ----
	switch n.kind {
	case 'n':
		switch t.Underlying().(type) {
		case *types.Interface, *types.Pointer, *types.Map, *types.Slice:
			*slot = zero(t)
		}
	case 't', 'f':
		b := n.kind == 't'
		switch ut := t.Underlying().(type) {
		case *types.Basic:
			if ut.Kind() == types.Bool {
				*slot = b
				return
			}
			d.typeError("bool", t)
		case *types.Interface:
			if ut.NumMethods() == 0 {
				*slot = iface{t: types.Typ[types.Bool], v: b}
				return
			}
			d.typeError("bool", t)
		default:
			d.typeError("bool", t)
		}
	case 's':
		switch ut := t.Underlying().(type) {
		case *types.Basic:
			if ut.Kind() == types.String {
				if t.String() == "encoding/json.Number" && !jsonIsValidNumber(d.fr, n.str) {
					panic(jsonAbort{jsonPlainError(d.fr, "json: invalid number literal, trying to unmarshal into Number")})
				}
				*slot = mkString(n.str)
				return
			}
			d.typeError("string", t)
		case *types.Interface:
			if ut.NumMethods() == 0 {
				*slot = iface{t: types.Typ[types.String], v: mkString(n.str)}
				return
			}
			d.typeError("string", t)
		case *types.Slice:
			if b, ok := ut.Elem().Underlying().(*types.Basic); ok && b.Kind() == types.Uint8 {
				panic(engineError{"json stub: base64 decoding into []byte"})
			}
			d.typeError("string", t)
		default:
			d.typeError("string", t)
		}
	case '0':
		d.number(n, slot, t)
	case '[':
		d.array(n, slot, t)
	case '{':
		d.object(n, slot, t)
	}
}

func jsonIsValidNumber(fr *frame, b []value) bool {
	if len(b) == 0 {
		return false
	}
	p := &jsonParser{fr: fr, d: b}
	ok := func() (ok bool) {
		defer func() {
			if r := recover(); r != nil {
				if _, is := r.(jsonSyntax); is {
					ok = false
					return
				}
				panic(r)
			}
		}()
		if !(p.is(0, '-') || p.in(0, '0', '9')) {
			return false
		}
		p.parseNumber()
		return p.pos == len(b)
	}()
	return ok
}

func concreteBytes(b []value) (string, bool) {
	buf := make([]byte, len(b))
	for i, x := range b {
		c, ok := x.(byte)
		if !ok {
			return "", false
		}
		buf[i] = c
	}
	return string(buf), true
}

func (d *jsonDec) number(n *jnode, slot *value, t types.Type) {
	lit := d.d[n.start:n.end]
	switch ut := t.Underlying().(type) {
	case *types.Interface:
		if ut.NumMethods() != 0 {
			d.typeError("number", t)
			return
		}
		if d.useNumber {
			pkg := d.fr.i.prog.ImportedPackage("encoding/json")
			*slot = iface{t: pkg.Type("Number").Type(), v: mkString(lit)}
			return
		}
		s, ok := concreteBytes(lit)
		if !ok {
			panic(engineError{"json stub: symbolic number decoded as float64"})
		}
		f, err := strconv.ParseFloat(s, 64)
		if err != nil {
			d.typeError("number "+s, t)
			return
		}
		*slot = iface{t: types.Typ[types.Float64], v: f}
	case *types.Basic:
		switch {
		case ut.Kind() == types.String && t.String() == "encoding/json.Number":
			*slot = mkString(lit)
		case ut.Info()&types.IsInteger != 0:
			bits := map[types.BasicKind]int{types.Int8: 8, types.Uint8: 8, types.Int16: 16, types.Uint16: 16, types.Int32: 32, types.Uint32: 32}[ut.Kind()]
			if bits == 0 {
				bits = 64
			}
			unsigned := ut.Info()&types.IsUnsigned != 0
			if s, ok := concreteBytes(lit); ok {
				if unsigned {
					u, err := strconv.ParseUint(s, 10, bits)
					if err != nil {
						d.typeError("number "+s, t)
						return
					}
					*slot = conv(t, types.Typ[types.Uint64], u)
				} else {
					i, err := strconv.ParseInt(s, 10, bits)
					if err != nil {
						d.typeError("number "+s, t)
						return
					}
					*slot = conv(t, types.Typ[types.Int64], i)
				}
				return
			}
			// symbolic digits: run the interpreted strconv parser
			pkg := d.fr.i.prog.ImportedPackage("strconv")
			if pkg == nil {
				panic(engineError{"json stub: strconv not loaded"})
			}
			name, src := "ParseInt", types.Typ[types.Int64]
			if unsigned {
				name, src = "ParseUint", types.Typ[types.Uint64]
			}
			r := call(d.fr.i, d.fr, token.NoPos, pkg.Func(name), []value{mkString(lit), int(10), int(bits)}).(tuple)
			if errv, ok := r[1].(iface); ok && errv.t != nil {
				d.typeError("number", t)
				return
			}
			*slot = convSym(d.fr, t, src, r[0])
		case ut.Info()&types.IsFloat != 0:
			s, ok := concreteBytes(lit)
			if !ok {
				panic(engineError{"json stub: symbolic number decoded as float"})
			}
			bits := 64
			if ut.Kind() == types.Float32 {
				bits = 32
			}
			f, err := strconv.ParseFloat(s, bits)
			if err != nil {
				d.typeError("number "+s, t)
				return
			}
			if bits == 32 {
				*slot = float32(f)
			} else {
				*slot = f
			}
		default:
			d.typeError("number", t)
		}
	default:
		d.typeError("number", t)
	}
}

var (
	jsonAnyType      = types.NewInterfaceType(nil, nil).Complete()
	jsonAnySliceType = types.NewSlice(jsonAnyType)
	jsonAnyMapType   = types.NewMap(types.Typ[types.String], jsonAnyType)
)

func (d *jsonDec) anyValue(n *jnode) value {
	cell := new(value)
	*cell = iface{}
	d.value(n, cell, jsonAnyType, true)
	return *cell
}

func (d *jsonDec) array(n *jnode, slot *value, t types.Type) {
	switch ut := t.Underlying().(type) {
	case *types.Interface:
		if ut.NumMethods() != 0 {
			d.typeError("array", t)
			return
		}
		out := make([]value, 0, len(n.elems))
		for _, e := range n.elems {
			out = append(out, d.anyValue(e))
		}
		*slot = iface{t: jsonAnySliceType, v: out}
	case *types.Slice:
		old, _ := (*slot).([]value)
		out := make([]value, len(n.elems))
		for i, e := range n.elems {
			if i < len(old) {
				out[i] = old[i]
			} else {
				out[i] = zero(ut.Elem())
			}
			d.value(e, &out[i], ut.Elem(), true)
		}
		*slot = out
	case *types.Array:
		a := (*slot).(array)
		for i, e := range n.elems {
			if i < len(a) {
				d.value(e, &a[i], ut.Elem(), true)
			}
		}
		for i := len(n.elems); i < len(a); i++ {
			a[i] = zero(ut.Elem())
		}
	default:
		d.typeError("array", t)
	}
}

func (d *jsonDec) keyEquals(k []value, name string) bool {
	if s, ok := concreteBytes(k); ok {
		return s == name
	}
	if len(k) != len(name) {
		return false
	}
	p := &jsonParser{fr: d.fr, d: k}
	for i := range k {
		if !p.is(i, name[i]) {
			return false
		}
	}
	return true
}

func (d *jsonDec) keyFoldEquals(k []value, name string) bool {
	if s, ok := concreteBytes(k); ok {
		return strings.EqualFold(s, name)
	}
	// symbolic key bytes: ASCII case folding only (see file comment)
	if len(k) != len(name) {
		return false
	}
	p := &jsonParser{fr: d.fr, d: k}
	for i := range k {
		c := name[i]
		lo, up := c, c
		if 'A' <= c && c <= 'Z' {
			lo = c + 32
		} else if 'a' <= c && c <= 'z' {
			up = c - 32
		}
		if !(p.is(i, lo) || (up != lo && p.is(i, up))) {
			return false
		}
	}
	return true
}

func (d *jsonDec) object(n *jnode, slot *value, t types.Type) {
	switch ut := t.Underlying().(type) {
	case *types.Interface:
		if ut.NumMethods() != 0 {
			d.typeError("object", t)
			return
		}
		m := &omap{idx: map[string]*oentry{}}
		for k, key := range n.keys {
			m.insert(d.fr, mkString(key.str), d.anyValue(n.elems[k]))
		}
		*slot = iface{t: jsonAnyMapType, v: m}
	case *types.Map:
		kb, _ := ut.Key().Underlying().(*types.Basic)
		textFn := methodWithSig(d.fr.i, types.NewPointer(ut.Key()), "UnmarshalText", 1, 1)
		switch {
		case kb != nil && (kb.Kind() == types.String || kb.Info()&types.IsInteger != 0):
		case textFn != nil:
		default:
			d.typeError("object", t)
			return
		}
		m, _ := (*slot).(*omap)
		if m == nil {
			m = &omap{idx: map[string]*oentry{}}
			*slot = m
		}
		for k, key := range n.keys {
			cell := new(value)
			*cell = zero(ut.Elem())
			d.value(n.elems[k], cell, ut.Elem(), true)
			var kv value
			switch {
			case textFn != nil && !(kb != nil && kb.Kind() == types.String):
				kc := new(value)
				*kc = zero(ut.Key())
				r := call(d.fr.i, d.fr, token.NoPos, textFn, []value{kc, append([]value{}, key.str...)})
				if errv, ok := r.(iface); ok && errv.t != nil {
					panic(jsonAbort{errv})
				}
				kv = load(ut.Key(), kc)
			case kb.Kind() == types.String:
				kv = mkString(key.str)
			default:
				s, ok := concreteBytes(key.str)
				if !ok {
					panic(engineError{"json stub: symbolic integer map key"})
				}
				if kb.Info()&types.IsUnsigned != 0 {
					u, err := strconv.ParseUint(s, 10, 64)
					if err != nil {
						d.typeError("number "+s, ut.Key())
						continue
					}
					kv = conv(ut.Key(), types.Typ[types.Uint64], u)
				} else {
					i, err := strconv.ParseInt(s, 10, 64)
					if err != nil {
						d.typeError("number "+s, ut.Key())
						continue
					}
					kv = conv(ut.Key(), types.Typ[types.Int64], i)
				}
			}
			m.insert(d.fr, kv, load(ut.Elem(), cell))
		}
	case *types.Struct:
		fields := jsonFields(ut)
		for k, key := range n.keys {
			var f *jsonField
			for i := range fields {
				if d.keyEquals(key.str, fields[i].name) {
					f = &fields[i]
					break
				}
			}
			if f == nil {
				for i := range fields {
					if d.keyFoldEquals(key.str, fields[i].name) {
						f = &fields[i]
						break
					}
				}
			}
			if f == nil {
				if d.disallow {
					if s, ok := concreteBytes(key.str); ok {
						d.saveError(fmt.Sprintf("json: unknown field %q", s))
					} else {
						d.saveError("json: unknown field \"<symbolic>\"")
					}
				}
				continue
			}
			if f.quoted {
				panic(engineError{"json stub: ,string option"})
			}
			fs, ok, unexp := fieldSlot(slot, t, f.index, true)
			if !ok {
				if unexp != nil {
					d.saveError("json: cannot set embedded pointer to unexported struct: " + unexp.String())
				}
				continue
			}
			d.value(n.elems[k], fs, f.typ, true)
		}
	default:
		d.typeError("object", t)
	}
}

// (*Decoder).Decode: the reader is drained, one value is taken from the front
// of the buffered bytes and the rest stays in the decoder's buf field.
func extJSONDecoderDecode(fr *frame, a []value) value {
	dec := a[0].(*value)
	pkg := fr.i.prog.ImportedPackage("encoding/json")
	dt := pkg.Type("Decoder").Type().Underlying().(*types.Struct)
	fi := func(st *types.Struct, name string) int {
		for i := 0; i < st.NumFields(); i++ {
			if st.Field(i).Name() == name {
				return i
			}
		}
		panic(engineError{"json stub: Decoder field " + name + " not found"})
	}
	s := (*dec).(structure)
	if errv, ok := s[fi(dt, "err")].(iface); ok && errv.t != nil {
		return errv
	}
	ds := s[fi(dt, "d")].(structure)
	dst := dt.Field(fi(dt, "d")).Type().Underlying().(*types.Struct)
	useNumber, _ := ds[fi(dst, "useNumber")].(bool)
	disallow, _ := ds[fi(dst, "disallowUnknownFields")].(bool)
	buf, _ := s[fi(dt, "buf")].([]value)
	scanp := int(asInt64(s[fi(dt, "scanp")]))
	data := append([]value{}, buf[scanp:]...)
	if r, ok := s[fi(dt, "r")].(iface); ok && r.t != nil {
		ioPkg := fr.i.prog.ImportedPackage("io")
		if ioPkg == nil {
			panic(engineError{"json stub: package io not loaded"})
		}
		res := call(fr.i, fr, token.NoPos, ioPkg.Func("ReadAll"), []value{r}).(tuple)
		more, _ := res[0].([]value)
		data = append(data, more...)
		if errv, ok := res[1].(iface); ok && errv.t != nil {
			s[fi(dt, "err")] = errv
			return errv
		}
		s[fi(dt, "r")] = iface{}
	}
	p := &jsonParser{fr: fr, d: data}
	p.skipWS()
	if p.pos >= len(data) {
		s[fi(dt, "buf")] = []value{}
		s[fi(dt, "scanp")] = int(0)
		ioPkg := fr.i.prog.ImportedPackage("io")
		return *fr.i.globals[ioPkg.Var("EOF")]
	}
	n, serr := p.parseDocument(false)
	if serr != nil {
		errv := jsonSyntaxError(fr, strings.TrimPrefix(serr.msg, "json: "), serr.off)
		s[fi(dt, "err")] = errv
		return errv
	}
	s[fi(dt, "buf")] = append([]value{}, data[p.pos:]...)
	s[fi(dt, "scanp")] = int(0)
	return jsonDecodeTop(fr, data, n, a[1].(iface), useNumber, disallow)
}
