package interp

// Path exploration: stateless DFS by decision-prefix re-execution, one resident
// solver set per worker, feasibility pruning with model reuse.

import (
	"fmt"
	"go/token"
	"go/types"
	"os"
	"runtime"
	"runtime/debug"
	"sort"
	"strings"
	"sync"
	"time"

	"golang.org/x/tools/go/ssa"
)

// engineError is an interpreter limitation (unsupported feature); it makes the
// path inconclusive and is never reported as a violation.
type engineError struct{ msg string }

func (e engineError) Error() string { return "engine: " + e.msg }

// control-flow panics of the explorer
type pathAbort struct{ why string }    // infeasible / Assume(false): not a result
type pathStop struct{}                 // violation recorded, stop this path
type budgetExceeded struct{ what string }

func isEngineCtl(p interface{}) bool {
	switch p.(type) {
	case engineError, pathAbort, pathStop, budgetExceeded:
		return true
	}
	return false
}

type Config struct {
	Tier        string
	QueryMs     int // assertion query cap
	FeasMs      int // feasibility query cap
	MaxPaths    int
	MaxSteps    int64
	MaxDepth    int
	Workers     int
	Seed        int64
	MaxViol     int
	ModulePath  string // functions of this module are recorded as "encoded"
	Debug       bool
	HarnessSec  int // wall-clock budget per harness (0 = none); overrun = inconclusive
}

type decision struct {
	V int    // chosen alternative
	N int    // number of alternatives (2 for a Boolean branch)
	H uint64 // hash of the branch condition (determinism check)
	K uint64 // concretization candidate tried at this decision (model-dependent, so it is recorded)
}

type workItem struct {
	prefix []decision
	model  map[string]uint64
}

// NondetVal is one vrt nondet value of a path, in creation order.
type NondetVal struct {
	Label string `json:"label"`
	Seq   int    `json:"seq"`
	Type  string `json:"type"`  // bool,int64,uint64,int,byte,rune,choice
	Value string `json:"value"` // decimal
	term  *Term
}

type Violation struct {
	Harness   string      `json:"harness"`
	Kind      string      `json:"kind"` // assert | panic | hang
	Label     string      `json:"label"`
	Msg       string      `json:"msg,omitempty"`
	Tags      []string    `json:"tags,omitempty"`
	Model     []NondetVal `json:"model"`
	Decisions string      `json:"decisions"`
	Theory    string      `json:"theory"`
	Solver    string      `json:"solver,omitempty"`
	Pos       string      `json:"pos,omitempty"`
}

type CoverWitness struct {
	Label string      `json:"label"`
	Model []NondetVal `json:"model"`
}

type HarnessResult struct {
	Name         string
	Paths        int
	Aborted      int
	Decisions    int
	Asserts      int // assertion obligations (symbolic) discharged by solver
	ConcAsserts  int // assertions that were concretely true
	Queries      map[string]int
	Unknown      int
	SolverWall   time.Duration
	Wall         time.Duration
	Violations   []Violation
	Covers       map[string]CoverWitness
	CoverDecl    map[string]bool
	Inconclusive []string
	Funcs        map[string]string // function -> position
	Bounds       map[string]int
	Assumes      map[string]int
	Samples      [][]NondetVal
	Intrinsics   map[string]int
	Distinct     map[uint64]bool
	PathCapHit   bool
	TimedOut     bool
	Writes       []string
}

// Explorer is the per-path state (one per worker at a time).
type Explorer struct {
	cfg     *Config
	w       *worker
	prefix  []decision
	taken   []decision
	pc      []*Term
	vars    []*Term
	nondets []NondetVal
	model   map[string]uint64 // satisfies pc when modelOK
	modelOK bool
	th      theory
	thSet   bool
	prefer  string // preferred solver key for this path ("" = by theory)
	preferAssert string // solver key for assertion queries only ("" = prefer)
	steps   int64
	depth   int
	covers  []string
	tags    []string
	asserts int
	concAsserts int
	newWork []workItem
	pendingK uint64
	nseq    int
	nondetOrder bool
	nondetAt    int // -1: permute every map iteration; k: only the k-th one since enabling
	nondetSeen  int
	frozen  *frozenSet
	writes  []string
	lastPos token.Pos
	lastFn  *ssa.Function
	pcIdx    map[uint64][]*Term // literals of pc by structural hash (lazy)
	pcIdxLen int
	noFast   bool
	ufApps    []*Term // applications of abstracted functions seen in pc / queries
	ufSeen    map[*Term]bool
	ufScanned int
	lemmaSeen map[uint64]bool
	ivl       *lowerer // interval analysis over the path condition (no solver)
	ivlSynced int
}

// intervalDecides tries to settle a branch condition by interval arithmetic over
// the bounds the path condition puts on variables (the analysis of the INT
// lowering).  It is a function of the path condition only, so it is stable under
// re-execution; a settled condition needs neither a solver query nor a decision.
func (ex *Explorer) intervalDecides(c *Term) (bool, bool) {
	if ex.ivl == nil || len(ex.pc) < ex.ivlSynced {
		ex.ivl = &lowerer{bounds: map[*Term]*ival{}, ivmemo: map[*Term]*ival{}}
		ex.ivlSynced = 0
	}
	if ex.ivlSynced < len(ex.pc) {
		for ; ex.ivlSynced < len(ex.pc); ex.ivlSynced++ {
			ex.ivl.learn(ex.pc[ex.ivlSynced], true)
		}
		ex.ivl.ivmemo = map[*Term]*ival{}
	}
	return ex.ivDecide(c, 0)
}

func (ex *Explorer) ivDecide(c *Term, depth int) (bool, bool) {
	if depth > 8 {
		return false, false
	}
	switch c.op {
	case OpConst:
		return c.c != 0, true
	case OpNot:
		v, ok := ex.ivDecide(c.args[0], depth+1)
		return !v, ok
	case OpBAnd:
		a, oka := ex.ivDecide(c.args[0], depth+1)
		b, okb := ex.ivDecide(c.args[1], depth+1)
		if (oka && !a) || (okb && !b) {
			return false, true
		}
		return true, oka && okb
	case OpBOr:
		a, oka := ex.ivDecide(c.args[0], depth+1)
		b, okb := ex.ivDecide(c.args[1], depth+1)
		if (oka && a) || (okb && b) {
			return true, true
		}
		return false, oka && okb
	case OpEq, OpLt, OpLe:
		x, y := c.args[0], c.args[1]
		if x.w == 0 || y.w == 0 || x.signed != y.signed {
			return false, false
		}
		a, b := ex.ivl.interval(x), ex.ivl.interval(y)
		switch c.op {
		case OpEq:
			if a.hi.Cmp(b.lo) < 0 || b.hi.Cmp(a.lo) < 0 {
				return false, true
			}
			if a.lo.Cmp(a.hi) == 0 && b.lo.Cmp(b.hi) == 0 && a.lo.Cmp(b.lo) == 0 {
				return true, true
			}
		case OpLt:
			if a.hi.Cmp(b.lo) < 0 {
				return true, true
			}
			if a.lo.Cmp(b.hi) >= 0 {
				return false, true
			}
		case OpLe:
			if a.hi.Cmp(b.lo) <= 0 {
				return true, true
			}
			if a.lo.Cmp(b.hi) > 0 {
				return false, true
			}
		}
	}
	return false, false
}

// scanUF collects the OpUF applications of the path condition and of extra.
func (ex *Explorer) scanUF(extra *Term) {
	if ex.ufSeen == nil {
		ex.ufSeen = map[*Term]bool{}
	}
	var walk func(t *Term)
	walk = func(t *Term) {
		if ex.ufSeen[t] {
			return
		}
		ex.ufSeen[t] = true
		for _, a := range t.args {
			walk(a)
		}
		if t.op == OpUF {
			ex.ufApps = append(ex.ufApps, t)
		}
	}
	if len(ex.pc) < ex.ufScanned {
		ex.ufScanned = 0
	}
	for ; ex.ufScanned < len(ex.pc); ex.ufScanned++ {
		walk(ex.pc[ex.ufScanned])
	}
	if extra != nil {
		walk(extra)
	}
}

// termEqual is structural equality of terms.
func termEqual(a, b *Term) bool {
	if a == b {
		return true
	}
	if a.op != b.op || a.w != b.w || a.signed != b.signed || a.c != b.c || a.name != b.name || len(a.args) != len(b.args) || a.hash() != b.hash() {
		return false
	}
	for i := range a.args {
		if !termEqual(a.args[i], b.args[i]) {
			return false
		}
	}
	return true
}

// pcHas reports whether c is literally one of the path-condition conjuncts.
// It depends only on the path condition, hence is stable under re-execution.
func (ex *Explorer) pcHas(c *Term) bool {
	if ex.pcIdx == nil || len(ex.pc) < ex.pcIdxLen {
		ex.pcIdx, ex.pcIdxLen = map[uint64][]*Term{}, 0
	}
	for ; ex.pcIdxLen < len(ex.pc); ex.pcIdxLen++ {
		t := ex.pc[ex.pcIdxLen]
		ex.pcIdx[t.hash()] = append(ex.pcIdx[t.hash()], t)
	}
	for _, t := range ex.pcIdx[c.hash()] {
		if termEqual(t, c) {
			return true
		}
	}
	return false
}

type worker struct {
	onStart func(*Explorer)
	id      int
	i       *interpreter
	solvers map[string]*solverProc
	res     *HarnessResult // worker-local accumulation
	cfg     *Config
}

func (w *worker) solver(key string, toMs int) *solverProc {
	mk := key
	if strings.HasPrefix(key, "cvc5") {
		mk = fmt.Sprintf("%s@%d", key, toMs) // cvc5's limit is fixed at launch
	}
	p := w.solvers[mk]
	if p != nil && !p.broken {
		if p.toMs != toMs {
			p.send(fmt.Sprintf("(set-option :timeout %d)\n", toMs))
			p.toMs = toMs
		}
		return p
	}
	if p != nil {
		p.kill()
	}
	np, err := startSolver(key, toMs)
	if err != nil {
		panic(engineError{"cannot start solver " + key + ": " + err.Error()})
	}
	w.solvers[mk] = np
	return np
}

func (w *worker) closeSolvers() {
	for _, p := range w.solvers {
		p.kill()
	}
	w.solvers = map[string]*solverProc{}
}

func (ex *Explorer) primaryKey() string {
	if ex.prefer != "" {
		return ex.prefer
	}
	if ex.th == thINT {
		return "z3-int"
	}
	return "z3-bv"
}

// assertKey is the solver asked first for assertion (validity) queries.
func (ex *Explorer) assertKey() string {
	if ex.preferAssert != "" {
		return ex.preferAssert
	}
	return ex.primaryKey()
}

// fallback solver order for assertion queries that come back unknown.
func (ex *Explorer) fallbackKeys() []string {
	var ks []string
	if ex.th == thINT {
		ks = []string{"z3-int", "cvc5-int", "z3new-int", "z3-bv"}
	} else {
		ks = []string{"z3-bv", "z3new-bv", "cvc5-bv", "z3-int"}
	}
	var out []string
	for _, k := range ks {
		if k != ex.assertKey() {
			out = append(out, k)
		}
	}
	return out
}

func (ex *Explorer) count(kind string) {
	ex.w.res.Queries[kind]++
}

// ufRefineRounds bounds the refinement of uninterpreted (hash) functions per query.
const ufRefineRounds = 24

// query runs pc ∧ extra on one solver.
func (ex *Explorer) query(key string, toMs int, extra *Term, wantModel bool) (satResult, map[string]uint64, string) {
	p := ex.w.solver(key, toMs)
	if p.synced > len(ex.pc) {
		// cannot happen: pc only grows within a path
		p.newPath()
	}
	t0 := time.Now()
	r, m, why := p.check(ex.pc, extra, ex.vars, wantModel)
	// Uninterpreted-function refinement: a model in which an abstracted function
	// (FNV) takes a value its concrete meaning excludes is spurious; the function's
	// true value at the model's arguments is added as a lemma and the query repeated.
	for iter := 0; r == resSat && m != nil; iter++ {
		ex.scanUF(extra)
		if len(ex.ufApps) == 0 {
			break
		}
		memo := map[*Term]uint64{}
		ok := extra == nil || evalTerm(extra, m, memo) != 0
		for _, c := range ex.pc {
			if !ok {
				break
			}
			if evalTerm(c, m, memo) == 0 {
				ok = false
			}
		}
		if ok {
			break
		}
		added := 0
		if iter < ufRefineRounds {
			for _, u := range ex.ufApps {
				var conj *Term
				for _, a := range u.args {
					if a.op == OpConst {
						continue
					}
					e := mkEq(a, mkConst(evalTerm(a, m, memo), a.w, a.signed))
					if conj == nil {
						conj = e
					} else {
						conj = mkAnd(conj, e)
					}
				}
				if conj == nil {
					continue
				}
				lemma := mkOr(mkNot(conj), mkEq(u, mkConst(evalTerm(u, m, memo), u.w, u.signed)))
				if ex.lemmaSeen == nil {
					ex.lemmaSeen = map[uint64]bool{}
				}
				if ex.lemmaSeen[lemma.hash()] {
					continue
				}
				ex.lemmaSeen[lemma.hash()] = true
				ex.pc = append(ex.pc, lemma)
				added++
			}
		}
		if debugPanics {
			fmt.Fprintf(os.Stderr, "UF-REFINE iter=%d added=%d apps=%d model=%v\n", iter, added, len(ex.ufApps), m)
		}
		if added == 0 {
			// no real witness within the refinement budget: the only models the solver
			// offers need the abstracted hash function to take values it does not take
			ex.count("uf-spurious")
			r, m, why = resUnknown, nil, "uf-spurious"
			break
		}
		ex.w.res.Bounds["uf-refinement-lemmas"] += added
		r, m, why = p.check(ex.pc, extra, ex.vars, wantModel)
	}
	ex.w.res.SolverWall += time.Since(t0)
	ex.count(p.spec.name + ":" + r.String())
	if r == resUnknown && debugPanics {
		fmt.Fprintf(os.Stderr, "UNKNOWN from %s: %s\n", p.spec.name, why)
	}
	if p.broken {
		// restart lazily; the new process re-syncs from 0
		for k, sp := range ex.w.solvers {
			if sp == p {
				delete(ex.w.solvers, k)
			}
		}
	}
	return r, m, why
}

// feasQuery is a feasibility query; when the primary encoding cannot express a term
// (e.g. bit operations in the integer encoding) the other encoding is asked.
func (ex *Explorer) feasQuery(extra *Term) (satResult, map[string]uint64, string) {
	r, m, why := ex.query(ex.primaryKey(), ex.cfg.FeasMs, extra, true)
	if why == "uf-spurious" {
		// Branches that exist only if two different strings have the same FNV hash (or a
		// hash has a particular order) and for which no real witness was found within
		// ufRefineRounds are not explored (stated in the evidence bounds).
		ex.w.res.Bounds["branches-needing-an-unwitnessed-fnv-hash-coincidence-pruned"]++
		return resUnsat, nil, why
	}
	if r == resUnknown && strings.HasPrefix(why, "unsupported") {
		alt := "z3-bv"
		if ex.th == thBV {
			alt = "z3-int"
		}
		r, m, why = ex.query(alt, ex.cfg.FeasMs, extra, true)
	}
	if r == resUnknown && why != "uf-spurious" && ex.th == thINT && ex.cfg.QueryMs > ex.cfg.FeasMs {
		// an undecided branch is explored as if feasible, which costs more than asking
		// once more with the assertion time limit
		ex.count("feasibility-retry-long")
		r, m, why = ex.query(ex.primaryKey(), ex.cfg.QueryMs, extra, true)
		if why == "uf-spurious" {
			ex.w.res.Bounds["branches-needing-an-unwitnessed-fnv-hash-coincidence-pruned"]++
			return resUnsat, nil, why
		}
	}
	return r, m, why
}

func (ex *Explorer) evalUnderModel(t *Term) (bool, bool) {
	if !ex.modelOK {
		return false, false
	}
	return evalTerm(t, ex.model, map[*Term]uint64{}) != 0, true
}

func (ex *Explorer) addPC(c *Term) {
	if c.isTrue() {
		return
	}
	ex.pc = append(ex.pc, c)
	if ex.modelOK {
		if evalTerm(c, ex.model, map[*Term]uint64{}) == 0 {
			ex.modelOK = false
		}
	}
}

func (ex *Explorer) decString() string {
	var sb strings.Builder
	for _, d := range ex.taken {
		if d.N <= 10 {
			fmt.Fprintf(&sb, "%d", d.V)
		} else {
			fmt.Fprintf(&sb, "[%d]", d.V)
		}
	}
	return sb.String()
}

// decide resolves a symbolic branch condition.
func (ex *Explorer) decide(c *Term) bool {
	if c.isConst() {
		return c.c != 0
	}
	if !c.isBool() {
		panic(engineError{"decide on non-Boolean term"})
	}
	// a condition already decided on this path needs neither a query nor a decision
	// (not for concretization candidates: their K is read from the recorded decision)
	if !ex.noFast {
		if ex.pcHas(c) {
			return true
		}
		if ex.pcHas(mkNot(c)) {
			return false
		}
		if v, ok := ex.intervalDecides(c); ok {
			ex.w.res.Queries["interval-decided"]++
			return v
		}
	}
	i := len(ex.taken)
	if i < len(ex.prefix) {
		d := ex.prefix[i]
		if d.N != 2 || (d.H != 0 && d.H != c.hash()) {
			panic(engineError{fmt.Sprintf("non-deterministic re-execution at decision %d (expected %d-way h=%x, got branch h=%x %s)", i, d.N, d.H, c.hash(), c)})
		}
		ex.taken = append(ex.taken, d)
		if d.V == 1 {
			ex.addPC(c)
		} else {
			ex.addPC(mkNot(c))
		}
		return d.V == 1
	}
	ex.w.res.Decisions++
	nc := mkNot(c)
	var feasT, feasF bool
	var otherModel map[string]uint64
	if v, ok := ex.evalUnderModel(c); ok {
		// current model witnesses one side; query the other
		other := nc
		if !v {
			other = c
		}
		r, m, _ := ex.feasQuery(other)
		ofeas := r != resUnsat
		if r == resUnknown {
			ex.w.res.Unknown++
		}
		if r == resSat {
			otherModel = m
		}
		if v {
			feasT, feasF = true, ofeas
		} else {
			feasT, feasF = ofeas, true
		}
		take := v
		if feasT && feasF {
			ex.pushSibling(decision{V: b2i(!take), N: 2, H: c.hash(), K: ex.pendingK}, otherModel)
		}
		ex.taken = append(ex.taken, decision{V: b2i(take), N: 2, H: c.hash(), K: ex.pendingK})
		if take {
			ex.addPC(c)
		} else {
			ex.addPC(nc)
		}
		return take
	}
	rT, mT, _ := ex.feasQuery(c)
	if rT == resUnknown {
		ex.w.res.Unknown++
	}
	feasT = rT != resUnsat
	var rF satResult
	var mF map[string]uint64
	if feasT && rT == resSat {
		rF, mF, _ = ex.feasQuery(nc)
	} else if !feasT {
		// pc is satisfiable (invariant), so ¬c must be
		rF = resSat
		mF = nil
	} else {
		rF, mF, _ = ex.feasQuery(nc)
	}
	if rF == resUnknown {
		ex.w.res.Unknown++
	}
	feasF = rF != resUnsat
	if !feasT && !feasF {
		panic(pathAbort{"both branch sides infeasible"})
	}
	take := feasT
	if feasT && feasF {
		ex.pushSibling(decision{V: 0, N: 2, H: c.hash(), K: ex.pendingK}, mF)
	}
	ex.taken = append(ex.taken, decision{V: b2i(take), N: 2, H: c.hash(), K: ex.pendingK})
	if take {
		ex.pc = append(ex.pc, c)
		ex.model, ex.modelOK = mT, mT != nil && rT == resSat
	} else {
		ex.pc = append(ex.pc, nc)
		ex.model, ex.modelOK = mF, mF != nil && rF == resSat
	}
	return take
}

func b2i(b bool) int {
	if b {
		return 1
	}
	return 0
}

func (ex *Explorer) pushSibling(d decision, model map[string]uint64) {
	p := make([]decision, len(ex.taken)+1)
	copy(p, ex.taken)
	p[len(ex.taken)] = d
	ex.newWork = append(ex.newWork, workItem{prefix: p, model: model})
}

// choice is an engine-level n-way fork (no solver involved).
func (ex *Explorer) choice(n int) int {
	if n <= 0 {
		panic(pathAbort{"choice over empty range"})
	}
	if n == 1 {
		return 0
	}
	i := len(ex.taken)
	if i < len(ex.prefix) {
		d := ex.prefix[i]
		if d.N != n {
			panic(engineError{fmt.Sprintf("non-deterministic re-execution at decision %d (choice arity %d vs %d)", i, d.N, n)})
		}
		ex.taken = append(ex.taken, d)
		return d.V
	}
	ex.w.res.Decisions++
	for k := n - 1; k >= 1; k-- {
		var m map[string]uint64
		if ex.modelOK {
			m = ex.model
		}
		ex.pushSibling(decision{V: k, N: n}, m)
	}
	ex.taken = append(ex.taken, decision{V: 0, N: n})
	return 0
}

// concretize forks over the feasible values of t within [lo,hi].
func (ex *Explorer) concretize(t *Term, lo, hi int64) int64 {
	for k := lo; k <= hi; k++ {
		var kt *Term
		if t.signed {
			kt = mkConst(uint64(k), t.w, true)
		} else {
			kt = mkConst(uint64(k), t.w, false)
		}
		if k == hi {
			// last candidate: must hold (caller guarantees range) – still decide to keep pc exact
			if ex.decide(mkEq(t, kt)) {
				return k
			}
			panic(pathAbort{"concretize: value outside range"})
		}
		if ex.decide(mkEq(t, kt)) {
			return k
		}
	}
	panic(pathAbort{"concretize: empty range"})
}

func (ex *Explorer) newVar(label, typ string, w uint8, signed bool) *Term {
	t := &Term{op: OpVar, w: w, signed: signed, name: fmt.Sprintf("%s#%d", label, ex.nseq), nvars: ex.nseq}
	ex.vars = append(ex.vars, t)
	ex.nondets = append(ex.nondets, NondetVal{Label: label, Seq: ex.nseq, Type: typ, term: t})
	ex.nseq++
	return t
}

func (ex *Explorer) recordChoice(label string, v int) {
	ex.nondets = append(ex.nondets, NondetVal{Label: label, Seq: ex.nseq, Type: "choice", Value: fmt.Sprint(v)})
	ex.nseq++
}

// currentModel returns values for all nondets; it queries the solver if needed.
func (ex *Explorer) currentModel() ([]NondetVal, bool) {
	if !ex.modelOK {
		r, m, why := ex.query(ex.primaryKey(), ex.cfg.QueryMs, nil, true)
		if r == resUnknown && why != "uf-spurious" {
			for _, k := range ex.fallbackKeys() {
				r, m, why = ex.query(k, ex.cfg.QueryMs, nil, true)
				if r != resUnknown || why == "uf-spurious" {
					break
				}
			}
		}
		if r == resUnsat || why == "uf-spurious" {
			// the path was only kept because a feasibility query had timed out
			panic(pathAbort{"path condition unsatisfiable (found late)"})
		}
		if r != resSat {
			return nil, false
		}
		ex.model, ex.modelOK = m, true
	}
	return ex.modelVals(ex.model), true
}

func (ex *Explorer) modelVals(m map[string]uint64) []NondetVal {
	out := make([]NondetVal, len(ex.nondets))
	for i, nd := range ex.nondets {
		out[i] = nd
		if nd.term != nil {
			v := m[nd.term.name] & maskB(nd.term.w)
			if nd.term.signed {
				out[i].Value = fmt.Sprint(sx(v, nd.term.w))
			} else {
				out[i].Value = fmt.Sprint(v)
			}
		}
	}
	return out
}

func (ex *Explorer) violation(kind, label, msg string, model map[string]uint64, solver string) {
	var mv []NondetVal
	if model != nil {
		mv = ex.modelVals(model)
	} else {
		var ok bool
		mv, ok = ex.currentModel()
		if !ok {
			ex.w.res.Inconclusive = append(ex.w.res.Inconclusive, fmt.Sprintf("%s %s: violation candidate without a model", kind, label))
			panic(pathStop{})
		}
	}
	pos := ""
	if ex.lastFn != nil {
		pos = ex.lastFn.String()
	}
	v := Violation{Harness: ex.w.res.Name, Kind: kind, Label: label, Msg: msg, Tags: append([]string{}, ex.tags...), Model: mv,
		Decisions: ex.decString(), Theory: ex.th.String(), Solver: solver, Pos: pos}
	ex.w.res.Violations = append(ex.w.res.Violations, v)
	panic(pathStop{})
}

// assert checks cond on the current path.
func (ex *Explorer) assert(label string, cond value) {
	switch c := cond.(type) {
	case bool:
		if c {
			ex.concAsserts++
			return
		}
		ex.violation("assert", label, "concretely false on this path", nil, "")
	case *Term:
		if c.isConst() {
			ex.assert(label, c.c != 0)
			return
		}
		ex.asserts++
		if v, ok := ex.evalUnderModel(c); ok && !v {
			ex.violation("assert", label, "", ex.model, "model-reuse")
		}
		nc := mkNot(c)
		if debugPanics {
			fmt.Fprintf(os.Stderr, "ASSERT %s (pc=%d vars=%d)\n", label, len(ex.pc), len(ex.vars))
		}
		r, m, why := ex.query(ex.assertKey(), ex.cfg.QueryMs, nc, true)
		used := ex.assertKey()
		if r == resUnknown && why != "uf-spurious" {
			for _, k := range ex.fallbackKeys() {
				r, m, why = ex.query(k, ex.cfg.QueryMs, nc, true)
				used = k
				if r != resUnknown || why == "uf-spurious" {
					break
				}
			}
		}
		switch r {
		case resUnsat:
			ex.w.res.Asserts++
			ex.pc = append(ex.pc, c)
		case resSat:
			// cross-validate the model by concrete evaluation of the DAG
			memo := map[*Term]uint64{}
			okpc := true
			for _, p := range ex.pc {
				if evalTerm(p, m, memo) == 0 {
					okpc = false
				}
			}
			if !okpc || evalTerm(c, m, memo) != 0 {
				ex.w.res.Inconclusive = append(ex.w.res.Inconclusive, fmt.Sprintf("assert %s: solver model from %s does not satisfy the term DAG (encoding error)", label, used))
				panic(pathStop{})
			}
			ex.violation("assert", label, "", m, solverSpecs[used].name)
		default:
			ex.w.res.Unknown++
			ex.w.res.Inconclusive = append(ex.w.res.Inconclusive, fmt.Sprintf("assert %s: all solvers unknown (%s)", label, why))
			panic(pathStop{})
		}
	default:
		panic(engineError{fmt.Sprintf("assert on %T", cond)})
	}
}

func (ex *Explorer) assume(cond value) {
	switch c := cond.(type) {
	case bool:
		if !c {
			panic(pathAbort{"assume false"})
		}
	case *Term:
		// must be satisfiable together with pc
		if v, ok := ex.evalUnderModel(c); ok && v {
			ex.pc = append(ex.pc, c)
			return
		}
		r, m, _ := ex.feasQuery(c)
		if r == resUnsat {
			panic(pathAbort{"assume infeasible"})
		}
		ex.pc = append(ex.pc, c)
		if r == resSat {
			ex.model, ex.modelOK = m, true
		} else {
			ex.w.res.Unknown++
			ex.modelOK = false
		}
	}
}

// ---- running paths ----

func (w *worker) runPath(fn *ssa.Function, item workItem) (newWork []workItem) {
	ex := &Explorer{cfg: w.cfg, w: w, prefix: item.prefix, nondetAt: -1}
	if item.model != nil {
		ex.model, ex.modelOK = item.model, true
	} else {
		ex.model, ex.modelOK = map[string]uint64{}, true
	}
	w.i.ex = ex
	if w.onStart != nil {
		w.onStart(ex)
	}
	for _, p := range w.solvers {
		p.newPath()
	}
	res := w.res
	completed := false
	func() {
		defer func() {
			if os.Getenv("VERIF_DEBUG_PANIC") != "" {
				return
			}
			r := recover()
			if r == nil {
				return
			}
			switch p := r.(type) {
			case pathAbort:
				res.Aborted++
				res.Assumes[p.why]++
			case pathStop:
			case budgetExceeded:
				ex.handleBudget(p)
			case engineError:
				res.Inconclusive = append(res.Inconclusive, p.msg+" @"+ex.where())
			case targetPanic:
				ex.recordPanic(describePanicValue(p.v))
			case runtime.Error:
				ex.recordPanic("runtime error: " + p.Error() + interpStack())
			case string:
				ex.recordPanic(p)
			default:
				res.Inconclusive = append(res.Inconclusive, fmt.Sprintf("unexpected panic %T %v", r, r))
			}
		}()
		call(w.i, nil, token.NoPos, fn, nil)
		completed = true
	}()
	if completed {
		res.Paths++
		res.Asserts += 0
		res.ConcAsserts += ex.concAsserts
		if len(ex.writes) > 0 {
			res.Writes = append(res.Writes, ex.writes...)
		}
		// cover points reached on a completed path
		var mv []NondetVal
		for _, c := range ex.covers {
			if _, ok := res.Covers[c]; !ok {
				if mv == nil {
					mv, _ = ex.tryModel()
				}
				if mv != nil {
					res.Covers[c] = CoverWitness{Label: c, Model: mv}
				}
			}
		}
		if len(res.Samples) < 3 && len(ex.nondets) > 0 {
			if mv == nil {
				mv, _ = ex.tryModel()
			}
			if mv != nil {
				res.Samples = append(res.Samples, mv)
			}
		}
		if ex.asserts > 0 || ex.concAsserts > 0 {
			h := uint64(14695981039346656037)
			for _, d := range ex.taken {
				h = (h ^ uint64(d.V+1)) * 1099511628211
			}
			res.Distinct[h] = true
		}
	}
	return ex.newWork
}

func interpStack() string {
	if os.Getenv("VERIF_DEBUG_STACK") == "" {
		return ""
	}
	return "\n" + string(debug.Stack())
}

func (ex *Explorer) where() string {
	if ex.lastFn != nil {
		return ex.lastFn.String()
	}
	return "?"
}

func describePanicValue(v value) string {
	if it, ok := v.(iface); ok {
		if s, ok := it.v.(string); ok {
			return s
		}
		return fmt.Sprintf("%v: %s", it.t, toString(it.v))
	}
	return toString(v)
}

// recordPanic treats a panic escaping the harness as a violation (to be replayed).
func (ex *Explorer) recordPanic(msg string) {
	defer func() {
		if r := recover(); r != nil {
			switch r.(type) {
			case pathStop:
			case pathAbort:
				ex.w.res.Aborted++
			default:
				panic(r)
			}
		}
	}()
	if strings.HasPrefix(msg, "VERIF-ASSERT ") {
		ex.violation("assert", strings.TrimPrefix(msg, "VERIF-ASSERT "), "", nil, "")
	}
	ex.violation("panic", "panic", msg, nil, "")
}

func (ex *Explorer) handleBudget(p budgetExceeded) {
	defer func() {
		if r := recover(); r != nil {
			switch r.(type) {
			case pathStop:
			case pathAbort:
				ex.w.res.Aborted++
			default:
				panic(r)
			}
		}
	}()
	ex.violation("hang", "budget", p.what, nil, "")
}

// RunHarness explores all paths of fn with cfg.Workers workers.
func RunHarness(prog *ssa.Program, fn *ssa.Function, cfg *Config, sizes types.Sizes) *HarnessResult {
	t0 := time.Now()
	total := newResult(fn.String())
	var mu sync.Mutex
	cond := sync.NewCond(&mu)
	queue := []workItem{{}}
	active := 0
	started := 0
	stop := false

	nw := cfg.Workers
	if nw <= 0 {
		nw = 1
	}
	var wg sync.WaitGroup
	results := make([]*HarnessResult, nw)
	if cfg.HarnessSec > 0 {
		budget := time.AfterFunc(time.Duration(cfg.HarnessSec)*time.Second, func() {
			mu.Lock()
			if !stop {
				total.TimedOut = true
				stop = true
			}
			mu.Unlock()
			cond.Broadcast()
		})
		defer budget.Stop()
	}
	curEx := make([]*Explorer, nw)
	curStart := make([]time.Time, nw)
	if os.Getenv("VERIF_PROGRESS") != "" {
		done := make(chan struct{})
		defer close(done)
		go func() {
			tk := time.NewTicker(20 * time.Second)
			defer tk.Stop()
			for {
				select {
				case <-done:
					return
				case <-tk.C:
					mu.Lock()
					fmt.Fprintf(os.Stderr, "PROGRESS %s: started=%d queue=%d active=%d t=%.0fs\n", fn.Name(), started, len(queue), active, time.Since(t0).Seconds())
					for wi, ex := range curEx {
						if ex == nil {
							continue
						}
						var sb strings.Builder
						for _, nd := range ex.nondets {
							if nd.Type == "choice" {
								fmt.Fprintf(&sb, "%s=%s ", nd.Label, nd.Value)
							}
						}
						fmt.Fprintf(os.Stderr, "   w%d %.0fs dec=%d pc=%d %s\n", wi, time.Since(curStart[wi]).Seconds(), len(ex.taken), len(ex.pc), sb.String())
					}
					mu.Unlock()
				}
			}
		}()
	}
	for wi := 0; wi < nw; wi++ {
		wg.Add(1)
		go func(wi int) {
			defer wg.Done()
			var w *worker
			defer func() {
				if w != nil {
					w.closeSolvers()
				}
			}()
			for {
				mu.Lock()
				for len(queue) == 0 && active > 0 && !stop {
					cond.Wait()
				}
				if stop || (len(queue) == 0 && active == 0) {
					mu.Unlock()
					cond.Broadcast()
					return
				}
				item := queue[len(queue)-1]
				queue = queue[:len(queue)-1]
				active++
				started++
				if cfg.MaxPaths > 0 && started > cfg.MaxPaths {
					total.PathCapHit = true
					stop = true
					active--
					mu.Unlock()
					cond.Broadcast()
					return
				}
				mu.Unlock()
				if w == nil {
					w = newWorker(wi, prog, cfg, sizes, fn.String())
					results[wi] = w.res
				}
				curStart[wi] = time.Now()
				w.onStart = func(ex *Explorer) { curEx[wi] = ex }
				nw := w.runPath(fn, item)
				curEx[wi] = nil
				mu.Lock()
				queue = append(queue, nw...)
				active--
				if cfg.MaxViol > 0 && len(w.res.Violations) >= cfg.MaxViol {
					stop = true
				}
				mu.Unlock()
				cond.Broadcast()
			}
		}(wi)
	}
	wg.Wait()
	for _, r := range results {
		if r != nil {
			total.merge(r)
		}
	}
	total.Wall = time.Since(t0)
	return total
}

func newResult(name string) *HarnessResult {
	return &HarnessResult{Name: name, Queries: map[string]int{}, Covers: map[string]CoverWitness{}, CoverDecl: map[string]bool{},
		Funcs: map[string]string{}, Bounds: map[string]int{}, Assumes: map[string]int{}, Intrinsics: map[string]int{}, Distinct: map[uint64]bool{}}
}

func (t *HarnessResult) merge(r *HarnessResult) {
	t.Paths += r.Paths
	t.Aborted += r.Aborted
	t.Decisions += r.Decisions
	t.Asserts += r.Asserts
	t.ConcAsserts += r.ConcAsserts
	t.Unknown += r.Unknown
	t.SolverWall += r.SolverWall
	for k, v := range r.Queries {
		t.Queries[k] += v
	}
	t.Violations = append(t.Violations, r.Violations...)
	for k, v := range r.Covers {
		if _, ok := t.Covers[k]; !ok {
			t.Covers[k] = v
		}
	}
	for k := range r.CoverDecl {
		t.CoverDecl[k] = true
	}
	t.Inconclusive = append(t.Inconclusive, r.Inconclusive...)
	for k, v := range r.Funcs {
		t.Funcs[k] = v
	}
	for k, v := range r.Bounds {
		if v > t.Bounds[k] {
			t.Bounds[k] = v
		}
	}
	for k, v := range r.Assumes {
		t.Assumes[k] += v
	}
	for k, v := range r.Intrinsics {
		t.Intrinsics[k] += v
	}
	for k := range r.Distinct {
		t.Distinct[k] = true
	}
	for _, s := range r.Samples {
		if len(t.Samples) < 4 {
			t.Samples = append(t.Samples, s)
		}
	}
	t.Writes = append(t.Writes, r.Writes...)
	sort.Strings(t.Inconclusive)
}

func newWorker(id int, prog *ssa.Program, cfg *Config, sizes types.Sizes, name string) *worker {
	w := &worker{id: id, cfg: cfg, solvers: map[string]*solverProc{}, res: newResult(name)}
	w.i = newInterpreter(prog, sizes)
	w.i.cfg = cfg
	// run package initialisers once per worker (concretely)
	ex := &Explorer{cfg: cfg, w: w, model: map[string]uint64{}, modelOK: true}
	w.i.ex = ex
	w.i.initializing = true
	for _, pkg := range prog.AllPackages() {
		if initOK(pkg.Pkg.Path(), cfg.ModulePath) {
			if f := pkg.Func("init"); f != nil {
				call(w.i, nil, token.NoPos, f, nil)
			}
		}
	}
	w.i.initializing = false
	return w
}

// replayK returns the concretization candidate recorded for the next decision, if it is being replayed.
func (ex *Explorer) replayK() (uint64, bool) {
	i := len(ex.taken)
	if i < len(ex.prefix) {
		return ex.prefix[i].K, true
	}
	return 0, false
}

// tryModel is currentModel outside the path's recover scope.
func (ex *Explorer) tryModel() (mv []NondetVal, ok bool) {
	defer func() {
		if r := recover(); r != nil {
			if _, isAbort := r.(pathAbort); !isAbort {
				panic(r)
			}
			mv, ok = nil, false
		}
	}()
	return ex.currentModel()
}
