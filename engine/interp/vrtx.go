package interp

// vrt intrinsics (nondet sources, assume/assert/cover, spec arithmetic) and the
// frozen-heap write monitor.

import (
	"fmt"
	"go/types"
	"strings"

	"golang.org/x/tools/go/ssa"
)

const vrtSuffix = "/internal/vrt."

// RegisterVrt installs the vrt intrinsics for the module path.
func RegisterVrt(module string) {
	p := module + vrtSuffix
	reg := func(name string, f externalFn) { externals[p+name] = f }
	nondet := func(typ string, w uint8, signed bool) externalFn {
		return func(fr *frame, a []value) value {
			return fr.i.ex.newVar(a[0].(string), typ, w, signed)
		}
	}
	reg("Bool", nondet("bool", 0, false))
	reg("Int64", nondet("int64", 64, true))
	reg("Uint64", nondet("uint64", 64, false))
	reg("Int", nondet("int", 64, true))
	reg("Int32", nondet("int32", 32, true))
	reg("Uint32", nondet("uint32", 32, false))
	reg("Uint16", nondet("uint16", 16, false))
	reg("Byte", nondet("byte", 8, false))
	reg("Rune", func(fr *frame, a []value) value {
		ex := fr.i.ex
		r := ex.newVar(a[0].(string), "rune", 32, true)
		c := func(v int64) *Term { return mkConst(uint64(v), 32, true) }
		valid := mkAnd(mkAnd(mkLe(c(0), r), mkLe(r, c(0x10FFFF))), mkNot(mkAnd(mkLe(c(0xD800), r), mkLe(r, c(0xDFFF)))))
		ex.assume(valid)
		return r
	})
	reg("Bytes", func(fr *frame, a []value) value {
		n := int(asInt64(a[1]))
		out := make([]value, n)
		for i := range out {
			out[i] = fr.i.ex.newVar(fmt.Sprintf("%s[%d]", a[0].(string), i), "byte", 8, false)
		}
		return out
	})
	reg("String", func(fr *frame, a []value) value {
		n := int(asInt64(a[1]))
		out := make([]value, n)
		for i := range out {
			out[i] = fr.i.ex.newVar(fmt.Sprintf("%s[%d]", a[0].(string), i), "byte", 8, false)
		}
		return mkString(out)
	})
	reg("IntRange", func(fr *frame, a []value) value {
		ex := fr.i.ex
		lo, hi := asInt64(a[1]), asInt64(a[2])
		v := ex.newVar(a[0].(string), "int", 64, true)
		ex.assume(mkAnd(mkLe(mkConst(uint64(lo), 64, true), v), mkLe(v, mkConst(uint64(hi), 64, true))))
		return v
	})
	reg("Choice", func(fr *frame, a []value) value {
		ex := fr.i.ex
		n := int(asInt64(a[1]))
		k := ex.choice(n)
		ex.recordChoice(a[0].(string), k)
		return k
	})
	reg("Concretize", func(fr *frame, a []value) value {
		if t, ok := a[0].(*Term); ok {
			return int(asInt64(fr.concTermSmall(t)))
		}
		return a[0]
	})
	reg("ConcretizeInt64", func(fr *frame, a []value) value {
		if t, ok := a[0].(*Term); ok {
			return asInt64(fr.concTermSmall(t))
		}
		return a[0]
	})
	reg("ConcretizeBool", func(fr *frame, a []value) value {
		if t, ok := a[0].(*Term); ok {
			return fr.i.ex.decide(t)
		}
		return a[0]
	})
	reg("Assume", func(fr *frame, a []value) value {
		fr.i.ex.assume(a[0])
		return nil
	})
	reg("Assert", func(fr *frame, a []value) value {
		fr.i.ex.assert(a[0].(string), a[1])
		return nil
	})
	reg("Cover", func(fr *frame, a []value) value {
		ex := fr.i.ex
		l := a[0].(string)
		ex.w.res.CoverDecl[l] = true
		for _, c := range ex.covers {
			if c == l {
				return nil
			}
		}
		ex.covers = append(ex.covers, l)
		return nil
	})
	reg("Tag", func(fr *frame, a []value) value {
		fr.i.ex.tags = append(fr.i.ex.tags, a[0].(string))
		return nil
	})
	reg("Observe", func(fr *frame, a []value) value { return nil })
	reg("And", func(fr *frame, a []value) value { return termToValue(mkAnd(liftVal(a[0]), liftVal(a[1]))) })
	reg("Or", func(fr *frame, a []value) value { return termToValue(mkOr(liftVal(a[0]), liftVal(a[1]))) })
	reg("Not", func(fr *frame, a []value) value { return termToValue(mkNot(liftVal(a[0]))) })
	reg("Implies", func(fr *frame, a []value) value { return termToValue(mkOr(mkNot(liftVal(a[0])), liftVal(a[1]))) })
	reg("IteInt64", func(fr *frame, a []value) value {
		return termToValue(mkIte(liftVal(a[0]), liftVal(a[1]), liftVal(a[2])))
	})
	reg("IteInt", func(fr *frame, a []value) value {
		return fixIntKind(termToValue(mkIte(liftVal(a[0]), liftVal(a[1]), liftVal(a[2]))), types.Typ[types.Int])
	})
	reg("IteBool", func(fr *frame, a []value) value {
		return termToValue(mkIte(liftVal(a[0]), liftVal(a[1]), liftVal(a[2])))
	})
	reg("IteByte", func(fr *frame, a []value) value {
		return termToValue(mkIte(liftVal(a[0]), liftVal(a[1]), liftVal(a[2])))
	})
	fit := func(op Op) externalFn {
		return func(fr *frame, a []value) value { return termToValue(mk(op, 0, false, liftVal(a[0]), liftVal(a[1]))) }
	}
	reg("AddFits", fit(OpAddFit))
	reg("SubFits", fit(OpSubFit))
	reg("MulFits", fit(OpMulFit))
	reg("EqBytes", func(fr *frame, a []value) value {
		return strEqSym(mustBytes(a[0]), mustBytes(a[1]))
	})
	reg("EqString", func(fr *frame, a []value) value {
		return strEqSym(mustBytes(a[0]), mustBytes(a[1]))
	})
	reg("Theory", func(fr *frame, a []value) value {
		ex := fr.i.ex
		if len(ex.vars) > 0 && !ex.thSet {
			// allowed: the choice only affects lowering
		}
		switch a[0].(string) {
		case "int":
			ex.th = thINT
		case "bv":
			ex.th = thBV
		case "int-cvc5":
			ex.th = thINT
			ex.prefer = "cvc5-int"
		case "int-mixed":
			// branch feasibility on z3 (cheap, many), validity of assertions on cvc5
			ex.th = thINT
			ex.preferAssert = "cvc5-int"
		case "bv-cvc5":
			ex.th = thBV
			ex.prefer = "cvc5-bv"
		case "bv-z3new":
			ex.th = thBV
			ex.prefer = "z3new-bv"
		default:
			panic(engineError{"unknown theory " + a[0].(string)})
		}
		ex.thSet = true
		return nil
	})
	reg("Bound", func(fr *frame, a []value) value {
		n := int(asInt64(a[1]))
		if n > fr.i.ex.w.res.Bounds[a[0].(string)] {
			fr.i.ex.w.res.Bounds[a[0].(string)] = n
		}
		return nil
	})
	reg("Tier", func(fr *frame, a []value) value { return fr.i.cfg.Tier })
	reg("Thorough", func(fr *frame, a []value) value { return fr.i.cfg.Tier == "thorough" })
	reg("Symbolic", func(fr *frame, a []value) value { return true })
	reg("NondetMapOrder", func(fr *frame, a []value) value {
		fr.i.ex.nondetOrder = a[0].(bool)
		fr.i.ex.nondetAt = -1
		fr.i.ex.nondetSeen = 0
		return nil
	})
	// NondetMapOrderAt(k): only the k-th map iteration (with >= 2 entries) from now on is permuted
	reg("NondetMapOrderAt", func(fr *frame, a []value) value {
		fr.i.ex.nondetOrder = true
		fr.i.ex.nondetAt = int(asInt64(a[0]))
		fr.i.ex.nondetSeen = 0
		return nil
	})
	reg("Freeze", func(fr *frame, a []value) value {
		ex := fr.i.ex
		if ex.frozen == nil {
			ex.frozen = newFrozenSet(fr.i)
		}
		if roots, ok := a[0].([]value); ok {
			for _, r := range roots {
				ex.frozen.add(r)
			}
		}
		return nil
	})
	reg("Writes", func(fr *frame, a []value) value { return len(fr.i.ex.writes) })
	reg("Unfreeze", func(fr *frame, a []value) value {
		fr.i.ex.frozen = nil
		return nil
	})
	reg("Concurrently", func(fr *frame, a []value) value {
		call(fr.i, fr, 0, a[1], nil)
		return nil
	})
	reg("Repeat", func(fr *frame, a []value) value { return 1 })
	reg("Steps", func(fr *frame, a []value) value { return int(fr.i.ex.steps) })
}

// ---- frozen heap ----

type frozenSet struct {
	base  *frozenBase // reachable from globals (per worker)
	cells map[*value]struct{}
	maps  map[*omap]struct{}
}

type frozenBase struct {
	cells map[*value]struct{}
	maps  map[*omap]struct{}
}

func newFrozenSet(i *interpreter) *frozenSet {
	if i.frozenBase == nil {
		b := &frozenBase{cells: map[*value]struct{}{}, maps: map[*omap]struct{}{}}
		fs := &frozenSet{base: b, cells: b.cells, maps: b.maps}
		for _, g := range i.globals {
			fs.addCell(g)
		}
		i.frozenBase = b
	}
	return &frozenSet{base: i.frozenBase, cells: map[*value]struct{}{}, maps: map[*omap]struct{}{}}
}

func (f *frozenSet) has(p *value) bool {
	if _, ok := f.cells[p]; ok {
		return true
	}
	_, ok := f.base.cells[p]
	return ok
}

func (f *frozenSet) hasMap(m *omap) bool {
	if _, ok := f.maps[m]; ok {
		return true
	}
	_, ok := f.base.maps[m]
	return ok
}

func (f *frozenSet) addCell(p *value) {
	if p == nil {
		return
	}
	if _, ok := f.cells[p]; ok {
		return
	}
	f.cells[p] = struct{}{}
	f.add(*p)
}

func (f *frozenSet) add(v value) {
	switch x := v.(type) {
	case *value:
		f.addCell(x)
	case structure:
		for i := range x {
			f.addCell(&x[i])
		}
	case array:
		for i := range x {
			f.addCell(&x[i])
		}
	case []value:
		full := x[:cap(x)]
		for i := range full {
			f.addCell(&full[i])
		}
	case iface:
		f.add(x.v)
	case *omap:
		if x == nil {
			return
		}
		if _, ok := f.maps[x]; ok {
			return
		}
		f.maps[x] = struct{}{}
		for _, e := range x.entries {
			f.add(e.key)
			f.add(e.val)
		}
	case *closure:
		if x != nil {
			for _, e := range x.Env {
				f.add(e)
			}
		}
	case tuple:
		for _, e := range x {
			f.add(e)
		}
	}
}

func (ex *Explorer) recordWrite(fr *frame, what string, instr ssa.Instruction) {
	pos := ""
	if instr != nil {
		pos = fr.i.prog.Fset.Position(instr.Pos()).String()
	}
	ex.writes = append(ex.writes, fmt.Sprintf("%s in %s %s", what, fr.fn, pos))
}

func (ex *Explorer) checkWrite(fr *frame, addr *value, instr ssa.Instruction) {
	if ex.frozen.has(addr) && !inSyncScope(fr) {
		ex.recordWrite(fr, "store to frozen cell", instr)
	}
}

func (ex *Explorer) checkMapWrite(fr *frame, m *omap, instr ssa.Instruction) {
	if ex.frozen.hasMap(m) && !inSyncScope(fr) {
		ex.recordWrite(fr, "write to frozen map", instr)
	}
}

func (ex *Explorer) checkAppend(fr *frame, s []value) {
	if len(s) < cap(s) {
		full := s[:cap(s)]
		if ex.frozen.has(&full[len(s)]) {
			ex.recordWrite(fr, "append into frozen backing array", nil)
		}
	}
}

func (ex *Explorer) checkSliceWrite(fr *frame, s []value) {
	if len(s) > 0 && ex.frozen.has(&s[0]) {
		ex.recordWrite(fr, "copy into frozen slice", nil)
	}
}

func (ex *Explorer) syncWrite(fr *frame, p *value) {}

// inSyncScope: writes inside sync.Once.Do / atomic helpers are synchronised.
func inSyncScope(fr *frame) bool {
	for f := fr; f != nil; f = f.caller {
		if f.fn != nil && f.fn.Pkg != nil {
			p := f.fn.Pkg.Pkg.Path()
			if p == "sync" || p == "sync/atomic" {
				return true
			}
		}
		if f.fn != nil && strings.HasPrefix(f.fn.String(), "(*sync.Once).Do") {
			return true
		}
	}
	return false
}
