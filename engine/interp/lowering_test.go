package interp

// Translator validation: random term DAGs are evaluated concretely (evalTerm,
// which mirrors Go's machine semantics and is what counterexample
// cross-checking uses) and the same terms are lowered to SMT-LIB in both
// encodings; with the variables pinned to the same constants the solver must
// find the term equal to the concretely computed value.

import (
	"fmt"
	"math/rand"
	"testing"
)

type termGen struct {
	r    *rand.Rand
	vars []*Term
	n    int
}

func (g *termGen) newVar(w uint8, signed bool) *Term {
	t := &Term{op: OpVar, w: w, signed: signed, name: fmt.Sprintf("x#%d", g.n), nvars: g.n}
	g.n++
	g.vars = append(g.vars, t)
	return t
}

var interesting = []uint64{0, 1, 2, 3, 7, 9, 10, 48, 57, 127, 128, 255, 256, 1000, 86400000, 1 << 31, 1<<31 - 1, 1 << 32, 1<<63 - 1, 1 << 63, ^uint64(0), ^uint64(0) - 1, 9223372036854775807 / 10}

func (g *termGen) constant(w uint8, signed bool) *Term {
	return mkConst(interesting[g.r.Intn(len(interesting))]+uint64(g.r.Intn(3)), w, signed)
}

func (g *termGen) intTerm(depth int, w uint8, signed bool, intOnly bool) *Term {
	if depth == 0 || g.r.Intn(5) == 0 {
		if g.r.Intn(3) == 0 {
			return g.constant(w, signed)
		}
		return g.newVar(w, signed)
	}
	a := g.intTerm(depth-1, w, signed, intOnly)
	switch k := g.r.Intn(12); k {
	case 0:
		return mk(OpAdd, w, signed, a, g.intTerm(depth-1, w, signed, intOnly))
	case 1:
		return mk(OpSub, w, signed, a, g.intTerm(depth-1, w, signed, intOnly))
	case 2:
		return mk(OpMul, w, signed, a, g.constant(w, signed))
	case 3, 4:
		c := g.constant(w, signed)
		if c.c == 0 {
			c = mkConst(10, w, signed)
		}
		if k == 3 {
			return mk(OpDiv, w, signed, a, c)
		}
		return mk(OpRem, w, signed, a, c)
	case 5:
		return mk(OpNeg, w, signed, a)
	case 6:
		masks := []uint64{0xff, 0x3f, 0xf, 0xc0, 0x7fffffff, 0xffff0000}
		return mk(OpAnd, w, signed, a, mkConst(masks[g.r.Intn(len(masks))], w, signed))
	case 7:
		return mk(OpShl, w, signed, a, mkConst(uint64(g.r.Intn(int(w)+2)), 64, false))
	case 8:
		return mk(OpShr, w, signed, a, mkConst(uint64(g.r.Intn(int(w)+2)), 64, false))
	case 9:
		// conversion through another width/signedness and back
		ws := []uint8{8, 16, 32, 64}
		w2 := ws[g.r.Intn(4)]
		s2 := g.r.Intn(2) == 0
		return mkConv(mkConv(a, w2, s2), w, signed)
	case 10:
		return mkIte(g.boolTerm(depth-1, intOnly), a, g.intTerm(depth-1, w, signed, intOnly))
	default:
		if intOnly {
			return mk(OpCompl, w, signed, a)
		}
		return mk(OpXor, w, signed, a, g.intTerm(depth-1, w, signed, intOnly))
	}
}

func (g *termGen) boolTerm(depth int, intOnly bool) *Term {
	ws := []uint8{8, 32, 64}
	w := ws[g.r.Intn(3)]
	signed := g.r.Intn(2) == 0
	a, b := g.intTerm(depth, w, signed, intOnly), g.intTerm(depth, w, signed, intOnly)
	switch g.r.Intn(7) {
	case 0:
		return mkLt(a, b)
	case 1:
		return mkLe(a, b)
	case 2:
		return mkEq(a, b)
	case 3:
		return mkNot(mkLt(a, b))
	case 4:
		return mk(OpAddFit, 0, false, a, b)
	case 5:
		return mk(OpSubFit, 0, false, a, b)
	default:
		return mk(OpMulFit, 0, false, a, g.constant(w, signed))
	}
}

func checkLowering(t *testing.T, key string, intOnly bool, rounds int) {
	p, err := startSolver(key, 20000)
	if err != nil {
		t.Skipf("solver %s not available: %v", key, err)
	}
	defer p.kill()
	r := rand.New(rand.NewSource(20260923))
	for round := 0; round < rounds; round++ {
		g := &termGen{r: r}
		var term *Term
		if round%2 == 0 {
			term = g.boolTerm(3, intOnly)
		} else {
			w := []uint8{8, 16, 32, 64}[r.Intn(4)]
			x := g.intTerm(3, w, r.Intn(2) == 0, intOnly)
			term = mkEq(x, x) // replaced below by comparison with the concrete value
			model := map[string]uint64{}
			for _, v := range g.vars {
				model[v.name] = (interesting[r.Intn(len(interesting))] + uint64(r.Intn(5))) & maskB(v.w)
			}
			val := evalTerm(x, model, map[*Term]uint64{})
			term = mkEq(x, mkConst(val, x.w, x.signed))
			checkOne(t, p, g, term, model, round, key)
			continue
		}
		model := map[string]uint64{}
		for _, v := range g.vars {
			model[v.name] = (interesting[r.Intn(len(interesting))] + uint64(r.Intn(5))) & maskB(v.w)
		}
		val := evalTerm(term, model, map[*Term]uint64{})
		want := term
		if val == 0 {
			want = mkNot(term)
		}
		checkOne(t, p, g, want, model, round, key)
	}
}

// checkOne: with the variables pinned to the model, `holds` must be valid (its negation unsat).
func checkOne(t *testing.T, p *solverProc, g *termGen, holds *Term, model map[string]uint64, round int, key string) {
	p.newPath()
	var pc []*Term
	for _, v := range g.vars {
		pc = append(pc, mkEq(v, mkConst(model[v.name], v.w, v.signed)))
	}
	res, _, why := p.check(pc, mkNot(holds), g.vars, false)
	switch res {
	case resUnsat:
	case resUnknown:
		if len(why) > 11 && why[:11] == "unsupported" {
			return // the encoding declines the term: never an answer
		}
		t.Logf("%s round %d: unknown (%s)", key, round, why)
	default:
		t.Fatalf("%s round %d: lowering disagrees with concrete evaluation for %s under %v", key, round, holds, model)
	}
}

func TestLoweringBV(t *testing.T)      { checkLowering(t, "z3-bv", false, 400) }
func TestLoweringINT(t *testing.T)     { checkLowering(t, "z3-int", true, 400) }
func TestLoweringCVC5INT(t *testing.T) { checkLowering(t, "cvc5-int", true, 150) }
func TestLoweringZ3NewBV(t *testing.T) { checkLowering(t, "z3new-bv", false, 150) }

// Interval analysis (used to elide mod in the INT lowering and to settle branch
// conditions without the solver): for random terms, random variable bounds learned
// from a path condition and random assignments inside those bounds, the concrete
// value must lie in the computed interval, and a condition the analysis settles
// must evaluate to the settled value.
func TestIntervalSoundness(t *testing.T) {
	r := rand.New(rand.NewSource(7))
	checked, settled := 0, 0
	for iter := 0; iter < 4000; iter++ {
		g := &termGen{r: r}
		w := []uint8{8, 16, 32, 64}[r.Intn(4)]
		signed := r.Intn(2) == 0
		term := g.intTerm(3, w, signed, false)
		cond := g.boolTerm(2, false)
		ex := &Explorer{}
		// a path condition bounding some variables
		model := map[string]uint64{}
		for _, v := range g.vars {
			val := interesting[r.Intn(len(interesting))] + uint64(r.Intn(5))
			val &= maskB(v.w)
			model[v.name] = val
			if r.Intn(2) == 0 {
				// lo <= v <= hi around the chosen value, in v's own order
				lo, hi := mkConst(val-uint64(r.Intn(3)), v.w, v.signed), mkConst(val+uint64(r.Intn(3)), v.w, v.signed)
				memo := map[*Term]uint64{}
				for _, c := range []*Term{mkLe(lo, v), mkLe(v, hi)} {
					if evalTerm(c, model, memo) != 0 {
						ex.pc = append(ex.pc, c)
					}
				}
			}
		}
		ex.intervalDecides(mkBoolConst(true)) // sync bounds
		memo := map[*Term]uint64{}
		val := evalTerm(term, model, memo)
		iv := ex.ivl.interval(term)
		var big = termConstBig(mkConst(val, term.w, term.signed))
		if big.Cmp(iv.lo) < 0 || big.Cmp(iv.hi) > 0 {
			t.Fatalf("iter %d: value %s of %s outside interval [%s,%s] (model %v, pc %v)", iter, big, term, iv.lo, iv.hi, model, ex.pc)
		}
		checked++
		if v, ok := ex.intervalDecides(cond); ok {
			settled++
			if got := evalTerm(cond, model, memo) != 0; got != v {
				t.Fatalf("iter %d: condition %s settled to %v but evaluates to %v (model %v, pc %v)", iter, cond, v, got, model, ex.pc)
			}
		}
	}
	t.Logf("interval soundness: %d terms checked, %d conditions settled by intervals", checked, settled)
}
