package interp

// fmt intrinsics.  Concrete operands are rendered by the host fmt (after
// calling interpreted Error()/String() methods); symbolic integers under
// %d/%v/%0Nd/%c and symbolic strings under %s/%v are rendered exactly by the
// digit/byte model; any other symbolic operand yields an *opaque* string whose
// inspection makes the path inconclusive.

import (
	"fmt"
	"go/token"
	"go/types"
	"strings"

	"golang.org/x/tools/go/ssa"
)

// opaqueMark stands for an unknown run of bytes inside an opaque string.
type opaqueMark struct{}

func hasOpaque(b []value) bool {
	for _, x := range b {
		if _, ok := x.(opaqueMark); ok {
			return true
		}
	}
	return false
}

// mkStringO is mkString that tolerates opaque marks.
func mkStringO(b []value) value {
	if hasOpaque(b) {
		cp := make([]value, len(b))
		copy(cp, b)
		return symString{b: cp, opaque: true}
	}
	return mkString(b)
}

// strBytesO returns the bytes of a string value; opaque strings keep their marks.
func strBytesO(v value) []value {
	switch s := v.(type) {
	case string:
		return strBytes(s)
	case symString:
		return s.b
	}
	panic(engineError{fmt.Sprintf("strBytesO %T", v)})
}

func typeName(t types.Type) string {
	return types.TypeString(t, func(p *types.Package) string { return p.Name() })
}

type fmtState struct {
	stubSym bool // error messages: symbolic operands are rendered opaque
	fr      *frame
	out     []value
	wrapped []iface
}

func (f *fmtState) str(s string) { f.out = append(f.out, strBytes(s)...) }

func hostBasic(v value) (interface{}, bool) {
	switch v := v.(type) {
	case bool, int, int8, int16, int32, int64, uint, uint8, uint16, uint32, uint64, uintptr, float32, float64, complex64, complex128, string:
		return v, true
	}
	return nil, false
}

// stringOf calls Error() or String() when the dynamic type has one.
func (f *fmtState) stringOf(arg iface) (value, bool) {
	if arg.t == nil {
		return nil, false
	}
	if types.Implements(arg.t, errorIfaceType()) {
		if _, isPtr := arg.t.Underlying().(*types.Pointer); isPtr {
			if p, ok := arg.v.(*value); ok && p == nil {
				return "<nil>", true
			}
		}
		r, ok := callMethod(f.fr, arg, "Error")
		if ok {
			return r, true
		}
	}
	if fn := findMethod(f.fr.i, arg.t, "String"); fn != nil && fn.Signature.Params().Len() == 0 && fn.Signature.Results().Len() == 1 {
		if b, ok := fn.Signature.Results().At(0).Type().Underlying().(*types.Basic); ok && b.Kind() == types.String {
			if _, isPtr := arg.t.Underlying().(*types.Pointer); isPtr {
				if p, ok := arg.v.(*value); ok && p == nil {
					return "<nil>", true
				}
			}
			return call(f.fr.i, f.fr, token.NoPos, fn, []value{arg.v}), true
		}
	}
	return nil, false
}

// renderV renders v of static/dynamic type t under plain %v.
func (f *fmtState) renderV(v value, t types.Type, depth int) {
	if depth > 6 {
		f.out = append(f.out, opaqueMark{})
		return
	}
	if it, ok := v.(iface); ok {
		if it.t == nil {
			f.str("<nil>")
			return
		}
		v, t = it.v, it.t
	}
	if t != nil {
		if s, ok := f.stringOf(iface{t: t, v: v}); ok {
			f.out = append(f.out, strBytesO(s)...)
			return
		}
	}
	switch x := v.(type) {
	case *Term:
		if x.w == 0 {
			f.out = append(f.out, opaqueMark{})
			return
		}
		f.out = append(f.out, formatIntSym(f.fr, x, 0)...)
	case symString:
		f.out = append(f.out, x.b...)
	case []value:
		var et types.Type
		if t != nil {
			if st, ok := t.Underlying().(*types.Slice); ok {
				et = st.Elem()
			}
		}
		f.str("[")
		for i, e := range x {
			if i > 0 {
				f.str(" ")
			}
			f.renderV(e, et, depth+1)
		}
		f.str("]")
	case array:
		var et types.Type
		if t != nil {
			if st, ok := t.Underlying().(*types.Array); ok {
				et = st.Elem()
			}
		}
		f.str("[")
		for i, e := range x {
			if i > 0 {
				f.str(" ")
			}
			f.renderV(e, et, depth+1)
		}
		f.str("]")
	case structure:
		var st *types.Struct
		if t != nil {
			st, _ = t.Underlying().(*types.Struct)
		}
		f.str("{")
		for i, e := range x {
			if i > 0 {
				f.str(" ")
			}
			var ft types.Type
			if st != nil {
				ft = st.Field(i).Type()
			}
			f.renderV(e, ft, depth+1)
		}
		f.str("}")
	case *value:
		if x == nil {
			f.str("<nil>")
			return
		}
		if t != nil {
			if pt, ok := t.Underlying().(*types.Pointer); ok {
				if _, ok := pt.Elem().Underlying().(*types.Struct); ok && depth == 0 {
					f.str("&")
					f.renderV(*x, pt.Elem(), depth+1)
					return
				}
			}
		}
		f.out = append(f.out, opaqueMark{})
	case *omap:
		f.out = append(f.out, opaqueMark{})
	default:
		if h, ok := hostBasic(v); ok {
			f.str(fmt.Sprintf("%v", h))
			return
		}
		f.out = append(f.out, opaqueMark{})
	}
}

func (f *fmtState) renderArg(spec string, verb rune, arg value) {
	ai, ok := arg.(iface)
	if !ok {
		panic(engineError{"fmt operand is not an interface value"})
	}
	plain := spec == "%"+string(verb)
	if ai.t == nil {
		f.str(fmt.Sprintf(spec, nil))
		return
	}
	if verb == 'T' {
		f.str(typeName(ai.t))
		return
	}
	if verb == 'w' {
		if types.Implements(ai.t, errorIfaceType()) {
			f.wrapped = append(f.wrapped, ai)
		}
		verb = 'v'
		spec = strings.Replace(spec, "w", "v", 1)
	}
	if f.stubSym && containsSym(ai.v, 0) {
		f.out = append(f.out, opaqueMark{})
		return
	}
	switch verb {
	case 'v', 's', 'q', 'x', 'X':
		if s, ok := f.stringOf(ai); ok {
			switch sv := s.(type) {
			case string:
				f.str(fmt.Sprintf(spec, sv))
			case symString:
				if plain && (verb == 'v' || verb == 's') {
					f.out = append(f.out, sv.b...)
				} else {
					f.out = append(f.out, opaqueMark{})
				}
			}
			return
		}
	}
	switch x := ai.v.(type) {
	case *Term:
		switch {
		case x.w == 0 || f.stubSym:
			f.out = append(f.out, opaqueMark{})
		case verb == 'd' || verb == 'v':
			width, zero, ok := parseZeroWidth(spec, verb)
			if !ok {
				f.out = append(f.out, opaqueMark{})
				return
			}
			if !zero && width > 0 {
				f.out = append(f.out, opaqueMark{})
				return
			}
			f.out = append(f.out, formatIntSym(f.fr, x, width)...)
		case verb == 'c' && plain:
			f.out = append(f.out, encodeRuneSym(f.fr, mkConv(x, 32, true))...)
		case verb == 'x' && plain:
			f.out = append(f.out, formatHexSym(f.fr, x)...)
		default:
			f.out = append(f.out, opaqueMark{})
		}
		return
	case symString:
		if plain && (verb == 'v' || verb == 's') {
			f.out = append(f.out, x.b...)
		} else {
			f.out = append(f.out, opaqueMark{})
		}
		return
	case []value:
		// []byte under %s/%q/%x
		if st, ok := ai.t.Underlying().(*types.Slice); ok {
			if b, ok := st.Elem().Underlying().(*types.Basic); ok && b.Kind() == types.Byte && (verb == 's' || verb == 'q' || verb == 'x') {
				if s, ok := mkStringO(x).(string); ok {
					f.str(fmt.Sprintf(spec, s))
				} else {
					f.out = append(f.out, opaqueMark{})
				}
				return
			}
		}
	}
	if h, ok := hostBasic(ai.v); ok {
		f.str(fmt.Sprintf(spec, h))
		return
	}
	if verb == 'v' && plain {
		f.renderV(ai.v, ai.t, 0)
		return
	}
	if verb == 's' && plain {
		// e.g. %s of []string
		f.renderV(ai.v, ai.t, 0)
		return
	}
	f.out = append(f.out, opaqueMark{})
}

// parseZeroWidth parses "%d", "%0Nd".
func parseZeroWidth(spec string, verb rune) (width int, zero bool, ok bool) {
	body := spec[1 : len(spec)-1]
	if body == "" {
		return 0, false, true
	}
	if body[0] == '0' {
		zero = true
		body = body[1:]
	}
	for _, c := range body {
		if c < '0' || c > '9' {
			return 0, false, false
		}
		width = width*10 + int(c-'0')
	}
	return width, zero, true
}

func (f *fmtState) format(format value, args []value) {
	fs, ok := format.(string)
	if !ok {
		panic(engineError{"symbolic format string"})
	}
	argi := 0
	for i := 0; i < len(fs); {
		c := fs[i]
		if c != '%' {
			f.out = append(f.out, c)
			i++
			continue
		}
		j := i + 1
		for j < len(fs) && strings.ContainsRune("+-# 0123456789.", rune(fs[j])) {
			j++
		}
		if j >= len(fs) {
			f.str("%!(NOVERB)")
			break
		}
		verb := rune(fs[j])
		spec := fs[i : j+1]
		i = j + 1
		if verb == '%' {
			f.out = append(f.out, byte('%'))
			continue
		}
		if verb == '*' || verb == '[' {
			panic(engineError{"fmt: * or [n] in format"})
		}
		if argi >= len(args) {
			f.str("%!" + string(verb) + "(MISSING)")
			continue
		}
		f.renderArg(spec, verb, args[argi])
		argi++
	}
	if argi < len(args) {
		f.str("%!(EXTRA ")
		for k := argi; k < len(args); k++ {
			if k > argi {
				f.str(", ")
			}
			ai := args[k].(iface)
			if ai.t == nil {
				f.str("<nil>")
			} else {
				f.str(typeName(ai.t) + "=")
				f.renderV(ai.v, ai.t, 0)
			}
		}
		f.str(")")
	}
}

func extSprintf(fr *frame, a []value) value {
	f := &fmtState{fr: fr}
	va, _ := a[1].([]value)
	f.format(a[0], va)
	return mkStringO(f.out)
}

func (f *fmtState) sprint(args []value, ln bool) {
	prevString := false
	for i, arg := range args {
		ai := arg.(iface)
		_, isStr := ai.v.(string)
		if _, ok := ai.v.(symString); ok {
			isStr = true
		}
		if ai.t != nil {
			if b, ok := ai.t.Underlying().(*types.Basic); !ok || b.Kind() != types.String {
				isStr = false
			}
		}
		if i > 0 && (ln || (!isStr && !prevString)) {
			f.str(" ")
		}
		f.renderV(ai, nil, 0)
		prevString = isStr
	}
	if ln {
		f.str("\n")
	}
}

func extSprint(fr *frame, a []value) value {
	f := &fmtState{fr: fr}
	va, _ := a[0].([]value)
	f.sprint(va, false)
	return mkStringO(f.out)
}

func extSprintln(fr *frame, a []value) value {
	f := &fmtState{fr: fr}
	va, _ := a[0].([]value)
	f.sprint(va, true)
	return mkStringO(f.out)
}

func writeTo(fr *frame, w value, b []value) value {
	wi := w.(iface)
	r, ok := callMethod(fr, wi, "Write", append([]value{}, b...))
	if !ok {
		panic(engineError{"Fprintf: writer without Write"})
	}
	return r
}

func extFprintf(fr *frame, a []value) value {
	f := &fmtState{fr: fr}
	va, _ := a[2].([]value)
	f.format(a[1], va)
	return writeTo(fr, a[0], f.out)
}

func extFprint(fr *frame, a []value) value {
	f := &fmtState{fr: fr}
	va, _ := a[1].([]value)
	f.sprint(va, false)
	return writeTo(fr, a[0], f.out)
}

func extFprintln(fr *frame, a []value) value {
	f := &fmtState{fr: fr}
	va, _ := a[1].([]value)
	f.sprint(va, true)
	return writeTo(fr, a[0], f.out)
}

func extErrorf(fr *frame, a []value) value {
	f := &fmtState{fr: fr, stubSym: true}
	va, _ := a[1].([]value)
	f.format(a[0], va)
	msg := mkStringO(f.out)
	fmtPkg := fr.i.prog.ImportedPackage("fmt")
	switch len(f.wrapped) {
	case 0:
		errorsPkg := fr.i.prog.ImportedPackage("errors")
		return call(fr.i, fr, token.NoPos, errorsPkg.Func("New"), []value{msg})
	case 1:
		wt := fmtPkg.Type("wrapError").Type()
		var st value = structure{msg, f.wrapped[0]}
		return iface{t: types.NewPointer(wt), v: &st}
	default:
		wt := fmtPkg.Type("wrapErrors").Type()
		errs := make([]value, len(f.wrapped))
		for i, w := range f.wrapped {
			errs[i] = w
		}
		var st value = structure{msg, errs}
		return iface{t: types.NewPointer(wt), v: &st}
	}
}

var _ = ssa.Function{}

// containsSym reports whether v (shallowly through structs, slices, interfaces) holds symbolic data.
func containsSym(v value, depth int) bool {
	if depth > 4 {
		return false
	}
	switch x := v.(type) {
	case *Term, symString:
		return true
	case iface:
		return containsSym(x.v, depth+1)
	case structure:
		for _, e := range x {
			if containsSym(e, depth+1) {
				return true
			}
		}
	case array:
		for _, e := range x {
			if containsSym(e, depth+1) {
				return true
			}
		}
	case []value:
		for _, e := range x {
			if containsSym(e, depth+1) {
				return true
			}
		}
	case *value:
		if x != nil {
			return containsSym(*x, depth+1)
		}
	case *omap:
		if x != nil {
			for _, e := range x.entries {
				if !e.deleted && (containsSym(e.key, depth+1) || containsSym(e.val, depth+1)) {
					return true
				}
			}
		}
	}
	return false
}

// formatHexSym renders a non-negative symbolic integer in lower-case hex (forks on digit count).
func formatHexSym(fr *frame, x *Term) []value {
	ex := fr.i.ex
	u := mkConv(x, 64, false)
	if x.signed {
		if ex.decide(mkLt(mkConv(x, 64, true), mkConst(0, 64, true))) {
			return []value{opaqueMark{}}
		}
	}
	n := 1
	for n < 16 {
		if ex.decide(mkLt(u, mkConst(uint64(1)<<(4*uint(n)), 64, false))) {
			break
		}
		n++
	}
	out := make([]value, n)
	for i := 0; i < n; i++ {
		d := mk(OpAnd, 64, false, mk(OpShr, 64, false, u, mkConst(uint64(4*i), 64, false)), mkConst(15, 64, false))
		d8 := mkConv(d, 8, false)
		isLetter := mkLt(mkConst(9, 8, false), d8)
		ch := mkIte(isLetter, mk(OpAdd, 8, false, d8, mkConst('a'-10, 8, false)), mk(OpAdd, 8, false, d8, mkConst('0', 8, false)))
		out[n-1-i] = termToValue(ch)
	}
	return out
}
