package interp

// Symbolic terms: typed machine-level operations over bit-vectors and Booleans.
// A Term of width w>0 denotes a Go integer of that width whose signedness is
// t.signed (taken from the static Go type at creation).  w==0 is Bool.
// Concrete values never become Terms except as children (OpConst).

import (
	"fmt"
	"go/types"
	"math/bits"
	"strings"
)

type Op uint8

const (
	OpConst Op = iota
	OpVar
	OpAdd
	OpSub
	OpMul
	OpDiv // Go truncated division, signedness from type
	OpRem
	OpNeg
	OpAnd
	OpOr
	OpXor
	OpCompl
	OpShl  // args[1] is an unsigned amount of any width
	OpShr  // arithmetic if signed
	OpConv // args[0] converted to (w, signed)
	OpLt   // Bool; compares args by their signedness
	OpLe
	OpEq // Bool; args are both ints of the same width or both Bool
	OpNot
	OpBAnd
	OpBOr
	OpIte    // args[0] Bool, args[1], args[2] same sort
	OpAddFit // Bool: exact args[0]+args[1] representable in their type
	OpSubFit
	OpMulFit
	OpUF // uninterpreted function t.name over args (abstraction of a known concrete function, see ufImpl)
)

var opNames = [...]string{"const", "var", "add", "sub", "mul", "div", "rem", "neg", "and", "or", "xor", "compl", "shl", "shr", "conv", "lt", "le", "eq", "not", "band", "bor", "ite", "addfit", "subfit", "mulfit", "uf"}

type Term struct {
	op     Op
	w      uint8
	signed bool
	args   []*Term
	c      uint64 // OpConst: value masked to w bits (Bool: 0/1)
	name   string // OpVar
	h      uint64 // structural hash (lazy)
	nvars  int    // OpVar: creation index
}

func (t *Term) isBool() bool { return t.w == 0 }

func mask(w uint8) uint64 {
	if w >= 64 {
		return ^uint64(0)
	}
	return (uint64(1) << w) - 1
}

// sx returns the signed interpretation of the w-bit value c.
func sx(c uint64, w uint8) int64 {
	if w >= 64 {
		return int64(c)
	}
	sh := 64 - uint(w)
	return int64(c<<sh) >> sh
}

func mkConst(c uint64, w uint8, signed bool) *Term {
	return &Term{op: OpConst, w: w, signed: signed, c: c & mask(w)}
}

func mkBoolConst(b bool) *Term {
	if b {
		return &Term{op: OpConst, c: 1}
	}
	return &Term{op: OpConst, c: 0}
}

var termTrue, termFalse = mkBoolConst(true), mkBoolConst(false)

func (t *Term) isConst() bool { return t.op == OpConst }
func (t *Term) isTrue() bool  { return t.op == OpConst && t.w == 0 && t.c == 1 }
func (t *Term) isFalse() bool { return t.op == OpConst && t.w == 0 && t.c == 0 }

// intKind describes a Go basic integer type.
func intKind(t types.Type) (w uint8, signed bool, ok bool) {
	b, isb := t.Underlying().(*types.Basic)
	if !isb {
		return 0, false, false
	}
	switch b.Kind() {
	case types.Int, types.Int64, types.UntypedInt:
		return 64, true, true
	case types.Int8:
		return 8, true, true
	case types.Int16:
		return 16, true, true
	case types.Int32, types.UntypedRune:
		return 32, true, true
	case types.Uint, types.Uint64, types.Uintptr:
		return 64, false, true
	case types.Uint8:
		return 8, false, true
	case types.Uint16:
		return 16, false, true
	case types.Uint32:
		return 32, false, true
	case types.Bool, types.UntypedBool:
		return 0, false, true
	}
	return 0, false, false
}

// liftVal converts a concrete Go scalar (or a Term) to a Term.
func liftVal(v value) *Term {
	switch v := v.(type) {
	case *Term:
		return v
	case bool:
		return mkBoolConst(v)
	case int:
		return mkConst(uint64(v), 64, true)
	case int8:
		return mkConst(uint64(v), 8, true)
	case int16:
		return mkConst(uint64(v), 16, true)
	case int32:
		return mkConst(uint64(v), 32, true)
	case int64:
		return mkConst(uint64(v), 64, true)
	case uint:
		return mkConst(uint64(v), 64, false)
	case uint8:
		return mkConst(uint64(v), 8, false)
	case uint16:
		return mkConst(uint64(v), 16, false)
	case uint32:
		return mkConst(uint64(v), 32, false)
	case uint64:
		return mkConst(v, 64, false)
	case uintptr:
		return mkConst(uint64(v), 64, false)
	}
	panic(engineError{fmt.Sprintf("liftVal: unsupported %T", v)})
}

// concreteOf converts a constant term back to a Go value of basic kind k.
func concreteOf(c uint64, t types.Type) value {
	b := t.Underlying().(*types.Basic)
	switch b.Kind() {
	case types.Bool, types.UntypedBool:
		return c != 0
	case types.Int, types.UntypedInt:
		return int(c)
	case types.Int8:
		return int8(c)
	case types.Int16:
		return int16(c)
	case types.Int32, types.UntypedRune:
		return int32(c)
	case types.Int64:
		return int64(c)
	case types.Uint:
		return uint(c)
	case types.Uint8:
		return uint8(c)
	case types.Uint16:
		return uint16(c)
	case types.Uint32:
		return uint32(c)
	case types.Uint64:
		return c
	case types.Uintptr:
		return uintptr(c)
	}
	panic(engineError{"concreteOf: " + t.String()})
}

// constToValue converts a constant Term to the Go scalar with its own width/sign.
func constToValue(t *Term, isInt bool) value {
	if t.w == 0 {
		return t.c != 0
	}
	switch {
	case t.w == 8 && t.signed:
		return int8(t.c)
	case t.w == 8:
		return uint8(t.c)
	case t.w == 16 && t.signed:
		return int16(t.c)
	case t.w == 16:
		return uint16(t.c)
	case t.w == 32 && t.signed:
		return int32(t.c)
	case t.w == 32:
		return uint32(t.c)
	case t.signed:
		return int64(t.c)
	}
	return t.c
}

// ---- evaluation of operations on constants (shared by folding and model evaluation) ----

func evalOp(op Op, w uint8, signed bool, a []uint64, at []*Term) uint64 {
	m := mask(w)
	switch op {
	case OpAdd:
		return (a[0] + a[1]) & m
	case OpSub:
		return (a[0] - a[1]) & m
	case OpMul:
		return (a[0] * a[1]) & m
	case OpDiv:
		if a[1] == 0 {
			return 0
		}
		if signed {
			x, y := sx(a[0], w), sx(a[1], w)
			if y == -1 {
				return uint64(-x) & m
			}
			return uint64(x/y) & m
		}
		return (a[0] / a[1]) & m
	case OpRem:
		if a[1] == 0 {
			return 0
		}
		if signed {
			x, y := sx(a[0], w), sx(a[1], w)
			if y == -1 {
				return 0
			}
			return uint64(x%y) & m
		}
		return (a[0] % a[1]) & m
	case OpNeg:
		return (-a[0]) & m
	case OpAnd:
		return a[0] & a[1]
	case OpOr:
		return a[0] | a[1]
	case OpXor:
		return a[0] ^ a[1]
	case OpCompl:
		return (^a[0]) & m
	case OpShl:
		if a[1] >= uint64(w) {
			return 0
		}
		return (a[0] << a[1]) & m
	case OpShr:
		if signed {
			x := sx(a[0], w)
			if a[1] >= uint64(w) {
				if x < 0 {
					return m
				}
				return 0
			}
			return uint64(x>>a[1]) & m
		}
		if a[1] >= uint64(w) {
			return 0
		}
		return a[0] >> a[1]
	case OpConv:
		src := at[0]
		if src.w == 0 {
			return a[0]
		}
		if src.signed {
			return uint64(sx(a[0], src.w)) & m
		}
		return a[0] & m
	case OpLt:
		if at[0].signed {
			return b2u(sx(a[0], at[0].w) < sx(a[1], at[0].w))
		}
		return b2u(a[0] < a[1])
	case OpLe:
		if at[0].signed {
			return b2u(sx(a[0], at[0].w) <= sx(a[1], at[0].w))
		}
		return b2u(a[0] <= a[1])
	case OpEq:
		return b2u(a[0] == a[1])
	case OpNot:
		return a[0] ^ 1
	case OpBAnd:
		return a[0] & a[1]
	case OpBOr:
		return a[0] | a[1]
	case OpIte:
		if a[0] != 0 {
			return a[1]
		}
		return a[2]
	case OpAddFit, OpSubFit, OpMulFit:
		aw, as := at[0].w, at[0].signed
		if as {
			x, y := sx(a[0], aw), sx(a[1], aw)
			lo, hi := -int64(1)<<(aw-1), int64(1)<<(aw-1)-1
			switch op {
			case OpAddFit:
				s := x + y
				if aw == 64 {
					return b2u(!((x > 0 && y > 0 && s < 0) || (x < 0 && y < 0 && s >= 0)))
				}
				return b2u(s >= lo && s <= hi)
			case OpSubFit:
				s := x - y
				if aw == 64 {
					return b2u(!((x >= 0 && y < 0 && s < 0) || (x < 0 && y > 0 && s >= 0)))
				}
				return b2u(s >= lo && s <= hi)
			default:
				if aw == 64 {
					if x == 0 || y == 0 {
						return 1
					}
					neg := (x < 0) != (y < 0)
					ux, uy := absU(x), absU(y)
					hi2, lo2 := bits.Mul64(ux, uy)
					if hi2 != 0 {
						return 0
					}
					if neg {
						return b2u(lo2 <= 1<<63)
					}
					return b2u(lo2 < 1<<63)
				}
				p := x * y
				return b2u(p >= lo && p <= hi)
			}
		}
		mm := mask(aw)
		switch op {
		case OpAddFit:
			s, c := bits.Add64(a[0], a[1], 0)
			return b2u(c == 0 && s <= mm)
		case OpSubFit:
			return b2u(a[0] >= a[1])
		default:
			hi2, lo2 := bits.Mul64(a[0], a[1])
			return b2u(hi2 == 0 && lo2 <= mm)
		}
	}
	panic(engineError{"evalOp: " + opNames[op]})
}

func absU(x int64) uint64 {
	if x < 0 {
		return uint64(-x)
	}
	return uint64(x)
}

func b2u(b bool) uint64 {
	if b {
		return 1
	}
	return 0
}

// ---- constructors with light simplification ----

// ufImpl gives the concrete meaning of each abstracted function (used for model
// evaluation and constant folding; the solver only sees an uninterpreted symbol).
var ufImpl = map[string]func(a []uint64) uint64{
	"fnv64":  func(a []uint64) uint64 { return (a[0] * 1099511628211) ^ (a[1] & 0xff) },
	"fnv64a": func(a []uint64) uint64 { return (a[0] ^ (a[1] & 0xff)) * 1099511628211 },
	"fnv64x8": func(a []uint64) uint64 {
		h := a[0]
		for k := 0; k < 8; k++ {
			h = (h * 1099511628211) ^ ((a[1] >> (8 * uint(k))) & 0xff)
		}
		return h
	},
	"fnv64ax8": func(a []uint64) uint64 {
		h := a[0]
		for k := 0; k < 8; k++ {
			h = (h ^ ((a[1] >> (8 * uint(k))) & 0xff)) * 1099511628211
		}
		return h
	},
}

func mkUF(name string, w uint8, signed bool, args ...*Term) *Term {
	allc := true
	for _, a := range args {
		if a.op != OpConst {
			allc = false
		}
	}
	if allc {
		av := make([]uint64, len(args))
		for i, a := range args {
			av[i] = a.c
		}
		return mkConst(ufImpl[name](av), w, signed)
	}
	return &Term{op: OpUF, w: w, signed: signed, args: args, name: name}
}

func mk(op Op, w uint8, signed bool, args ...*Term) *Term {
	allc := true
	for _, a := range args {
		if a.op != OpConst {
			allc = false
			break
		}
	}
	if allc {
		av := make([]uint64, len(args))
		for i, a := range args {
			av[i] = a.c
		}
		return &Term{op: OpConst, w: w, signed: signed, c: evalOp(op, w, signed, av, args) & maskB(w)}
	}
	switch op {
	case OpAdd:
		if args[0].isConst() && args[0].c == 0 {
			return args[1]
		}
		if args[1].isConst() && args[1].c == 0 {
			return args[0]
		}
	case OpSub:
		if args[1].isConst() && args[1].c == 0 {
			return args[0]
		}
	case OpMul:
		if args[0].isConst() && args[0].c == 1 {
			return args[1]
		}
		if args[1].isConst() && args[1].c == 1 {
			return args[0]
		}
		if (args[0].isConst() && args[0].c == 0) || (args[1].isConst() && args[1].c == 0) {
			return mkConst(0, w, signed)
		}
	case OpNot:
		if args[0].op == OpNot {
			return args[0].args[0]
		}
	case OpBAnd:
		if args[0].isFalse() || args[1].isFalse() {
			return termFalse
		}
		if args[0].isTrue() {
			return args[1]
		}
		if args[1].isTrue() {
			return args[0]
		}
		if args[0] == args[1] {
			return args[0]
		}
	case OpBOr:
		if args[0].isTrue() || args[1].isTrue() {
			return termTrue
		}
		if args[0].isFalse() {
			return args[1]
		}
		if args[1].isFalse() {
			return args[0]
		}
		if args[0] == args[1] {
			return args[0]
		}
	case OpIte:
		if args[0].isTrue() {
			return args[1]
		}
		if args[0].isFalse() {
			return args[2]
		}
		if args[1] == args[2] {
			return args[1]
		}
		if args[1].isConst() && args[2].isConst() && args[1].c == args[2].c {
			return args[1]
		}
		if w == 0 {
			if args[1].isTrue() && args[2].isFalse() {
				return args[0]
			}
			if args[1].isFalse() && args[2].isTrue() {
				return mkNot(args[0])
			}
		}
	case OpEq:
		if args[0] == args[1] {
			return termTrue
		}
		if args[0].w == 0 {
			if args[1].isTrue() {
				return args[0]
			}
			if args[1].isFalse() {
				return mkNot(args[0])
			}
			if args[0].isTrue() {
				return args[1]
			}
			if args[0].isFalse() {
				return mkNot(args[1])
			}
		}
	case OpConv:
		if args[0].w == w && args[0].signed == signed {
			return args[0]
		}
		if args[0].w == w && args[0].op == OpConv && args[0].args[0].w == w {
			// int64 -> uint64 -> int64
			return mk(OpConv, w, signed, args[0].args[0])
		}
	}
	return &Term{op: op, w: w, signed: signed, args: args}
}

func mkNot(a *Term) *Term          { return mk(OpNot, 0, false, a) }
func mkAnd(a, b *Term) *Term       { return mk(OpBAnd, 0, false, a, b) }
func mkOr(a, b *Term) *Term        { return mk(OpBOr, 0, false, a, b) }
func mkEq(a, b *Term) *Term        { return mk(OpEq, 0, false, a, b) }
func mkIte(c, a, b *Term) *Term    { return mk(OpIte, a.w, a.signed, c, a, b) }
func mkLt(a, b *Term) *Term        { return mk(OpLt, 0, false, a, b) }
func mkLe(a, b *Term) *Term        { return mk(OpLe, 0, false, a, b) }
func mkConv(a *Term, w uint8, s bool) *Term { return mk(OpConv, w, s, a) }

// ---- structural hash and printing ----

func (t *Term) hash() uint64 {
	if t.h != 0 {
		return t.h
	}
	h := uint64(1469598103934665603)
	mix := func(x uint64) {
		h ^= x
		h *= 1099511628211
		h ^= h >> 29
	}
	mix(uint64(t.op))
	mix(uint64(t.w))
	if t.signed {
		mix(7)
	}
	mix(t.c)
	for i := 0; i < len(t.name); i++ {
		mix(uint64(t.name[i]))
	}
	for _, a := range t.args {
		mix(a.hash())
	}
	if h == 0 {
		h = 1
	}
	t.h = h
	return h
}

func (t *Term) String() string {
	var sb strings.Builder
	t.write(&sb, 0)
	return sb.String()
}

func (t *Term) write(sb *strings.Builder, depth int) {
	if depth > 12 {
		sb.WriteString("…")
		return
	}
	switch t.op {
	case OpConst:
		if t.w == 0 {
			fmt.Fprintf(sb, "%v", t.c != 0)
		} else if t.signed {
			fmt.Fprintf(sb, "%d", sx(t.c, t.w))
		} else {
			fmt.Fprintf(sb, "%d", t.c)
		}
	case OpVar:
		sb.WriteString(t.name)
	default:
		sb.WriteString("(")
		sb.WriteString(opNames[t.op])
		for _, a := range t.args {
			sb.WriteString(" ")
			a.write(sb, depth+1)
		}
		sb.WriteString(")")
	}
}

// evalTerm evaluates t under a (total-by-default-zero) model.
func evalTerm(t *Term, model map[string]uint64, memo map[*Term]uint64) uint64 {
	switch t.op {
	case OpConst:
		return t.c
	case OpVar:
		return model[t.name] & maskB(t.w)
	}
	if v, ok := memo[t]; ok {
		return v
	}
	av := make([]uint64, len(t.args))
	if t.op == OpIte {
		c := evalTerm(t.args[0], model, memo)
		var r uint64
		if c != 0 {
			r = evalTerm(t.args[1], model, memo)
		} else {
			r = evalTerm(t.args[2], model, memo)
		}
		memo[t] = r
		return r
	}
	for i, a := range t.args {
		av[i] = evalTerm(a, model, memo)
	}
	if t.op == OpUF {
		r := ufImpl[t.name](av) & maskB(t.w)
		memo[t] = r
		return r
	}
	r := evalOp(t.op, t.w, t.signed, av, t.args) & maskB(t.w)
	memo[t] = r
	return r
}

func maskB(w uint8) uint64 {
	if w == 0 {
		return 1
	}
	return mask(w)
}

// collectVars appends the variables of t (deduplicated through seen).
func collectVars(t *Term, seen map[*Term]bool, out *[]*Term) {
	if seen[t] {
		return
	}
	seen[t] = true
	if t.op == OpVar {
		*out = append(*out, t)
		return
	}
	for _, a := range t.args {
		collectVars(a, seen, out)
	}
}
