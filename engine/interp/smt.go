package interp

// Lowering of Terms to SMT-LIB2 (two exact encodings of Go's wrap-around
// semantics: bit-vectors, and mathematical integers with explicit wrap) and
// resident solver processes.

import (
	"os"
	"bufio"
	"fmt"
	"io"
	"math/big"
	"os/exec"
	"strconv"
	"strings"
	"sync/atomic"
	"time"
)

type theory int

const (
	thBV theory = iota
	thINT
)

func (t theory) String() string {
	if t == thBV {
		return "bv"
	}
	return "int"
}

type errUnsupported struct{ msg string }

func (e errUnsupported) Error() string { return "unsupported in lowering: " + e.msg }

type lowerer struct {
	bounds map[*Term]*ival // facts learned from the path condition (vars only)
	ivmemo map[*Term]*ival
	ufs   map[string]bool
	th    theory
	names map[*Term]string
	next  int
	out   *strings.Builder
}

func pow2(k uint) *big.Int { return new(big.Int).Lsh(big.NewInt(1), k) }

func intLit(v *big.Int) string {
	if v.Sign() < 0 {
		return "(- " + new(big.Int).Neg(v).String() + ")"
	}
	return v.String()
}

func (l *lowerer) sort(t *Term) string {
	if t.w == 0 {
		return "Bool"
	}
	if l.th == thBV {
		return fmt.Sprintf("(_ BitVec %d)", t.w)
	}
	return "Int"
}

func varName(t *Term) string { return fmt.Sprintf("v%d", t.nvars) }

// rangeAssert returns the INT-theory range constraint of a variable.
func rangeAssert(name string, w uint8, signed bool) string {
	if signed {
		lo := new(big.Int).Neg(pow2(uint(w) - 1))
		hi := new(big.Int).Sub(pow2(uint(w)-1), big.NewInt(1))
		return fmt.Sprintf("(assert (and (>= %s %s) (<= %s %s)))", name, intLit(lo), name, intLit(hi))
	}
	hi := new(big.Int).Sub(pow2(uint(w)), big.NewInt(1))
	return fmt.Sprintf("(assert (and (>= %s 0) (<= %s %s)))", name, name, hi.String())
}

func (l *lowerer) wrap(expr string, w uint8, signed bool) string {
	if signed {
		return fmt.Sprintf("(- (mod (+ %s %s) %s) %s)", expr, pow2(uint(w)-1), pow2(uint(w)), pow2(uint(w)-1))
	}
	return fmt.Sprintf("(mod %s %s)", expr, pow2(uint(w)))
}

// constMaskRun reports whether c (w bits) is a contiguous run of ones [lo,hi).
func constMaskRun(c uint64, w uint8) (lo, hi uint, ok bool) {
	if c == 0 {
		return 0, 0, false
	}
	for lo = 0; lo < 64 && c&(1<<lo) == 0; lo++ {
	}
	for hi = lo; hi < 64 && c&(1<<hi) != 0; hi++ {
	}
	if hi < 64 && c>>hi != 0 {
		return 0, 0, false
	}
	return lo, hi, true
}

// lower returns the name (or literal) denoting t, emitting definitions as needed.
func (l *lowerer) lower(t *Term) (string, error) {
	if n, ok := l.names[t]; ok {
		return n, nil
	}
	var rangeOf *ival
	var body string
	switch t.op {
	case OpConst:
		if t.w == 0 {
			if t.c != 0 {
				return "true", nil
			}
			return "false", nil
		}
		if l.th == thBV {
			return fmt.Sprintf("(_ bv%d %d)", t.c, t.w), nil
		}
		if t.signed {
			return intLit(big.NewInt(sx(t.c, t.w))), nil
		}
		return new(big.Int).SetUint64(t.c).String(), nil
	case OpVar:
		n := varName(t)
		fmt.Fprintf(l.out, "(declare-const %s %s)\n", n, l.sort(t))
		if l.th == thINT && t.w != 0 {
			l.out.WriteString(rangeAssert(n, t.w, t.signed) + "\n")
		}
		l.names[t] = n
		return n, nil
	}
	a := make([]string, len(t.args))
	for i, x := range t.args {
		s, err := l.lower(x)
		if err != nil {
			return "", err
		}
		a[i] = s
	}
	bv := l.th == thBV
	switch t.op {
	case OpAdd, OpSub, OpMul:
		if bv {
			body = fmt.Sprintf("(%s %s %s)", map[Op]string{OpAdd: "bvadd", OpSub: "bvsub", OpMul: "bvmul"}[t.op], a[0], a[1])
		} else {
			body = fmt.Sprintf("(%s %s %s)", map[Op]string{OpAdd: "+", OpSub: "-", OpMul: "*"}[t.op], a[0], a[1])
			if !l.exactFits(t) {
				body = l.wrap(body, t.w, t.signed)
			}
		}
	case OpNeg:
		if bv {
			body = "(bvneg " + a[0] + ")"
		} else {
			body = "(- " + a[0] + ")"
			if !l.exactFits(t) {
				body = l.wrap(body, t.w, t.signed)
			}
		}
	case OpDiv:
		if bv {
			if t.signed {
				body = fmt.Sprintf("(bvsdiv %s %s)", a[0], a[1])
			} else {
				body = fmt.Sprintf("(bvudiv %s %s)", a[0], a[1])
			}
		} else if t.signed {
			if l.nonneg(t.args[0]) && l.positive(t.args[1]) {
				body = fmt.Sprintf("(div %s %s)", a[0], a[1])
			} else {
				body = l.wrap(fmt.Sprintf("(tdiv %s %s)", a[0], a[1]), t.w, true)
			}
		} else {
			body = fmt.Sprintf("(div %s %s)", a[0], a[1])
		}
	case OpRem:
		if bv {
			if t.signed {
				body = fmt.Sprintf("(bvsrem %s %s)", a[0], a[1])
			} else {
				body = fmt.Sprintf("(bvurem %s %s)", a[0], a[1])
			}
		} else if t.signed {
			if l.nonneg(t.args[0]) && l.positive(t.args[1]) {
				body = fmt.Sprintf("(mod %s %s)", a[0], a[1])
			} else {
				body = fmt.Sprintf("(trem %s %s)", a[0], a[1])
			}
		} else {
			body = fmt.Sprintf("(mod %s %s)", a[0], a[1])
		}
	case OpAnd, OpOr, OpXor:
		if bv {
			body = fmt.Sprintf("(%s %s %s)", map[Op]string{OpAnd: "bvand", OpOr: "bvor", OpXor: "bvxor"}[t.op], a[0], a[1])
		} else {
			// INT: only x & constant-run masks
			x, c := t.args[0], t.args[1]
			xs := a[0]
			if x.isConst() {
				x, c = c, x
				xs = a[1]
			}
			if t.op != OpAnd || !c.isConst() {
				return "", errUnsupported{opNames[t.op] + " on integers"}
			}
			lo, hi, ok := constMaskRun(c.c, t.w)
			if !ok {
				return "", errUnsupported{"and with non-contiguous mask"}
			}
			// two's complement low bits: (x mod 2^hi) is correct for negative x as well
			e := xs
			if hi < uint(t.w) || t.signed {
				e = fmt.Sprintf("(mod %s %s)", xs, pow2(hi))
			}
			if lo > 0 {
				e = fmt.Sprintf("(* (div %s %s) %s)", e, pow2(lo), pow2(lo))
			}
			if t.signed && hi == uint(t.w) {
				e = l.wrap(e, t.w, true)
			}
			_ = x
			body = e
		}
	case OpCompl:
		if bv {
			body = "(bvnot " + a[0] + ")"
		} else if t.signed {
			body = fmt.Sprintf("(- (- %s) 1)", a[0])
		} else {
			body = fmt.Sprintf("(- %s %s)", new(big.Int).Sub(pow2(uint(t.w)), big.NewInt(1)), a[0])
		}
	case OpShl, OpShr:
		amt := t.args[1]
		if bv {
			as := a[1]
			switch {
			case amt.w < t.w:
				as = fmt.Sprintf("((_ zero_extend %d) %s)", t.w-amt.w, as)
			case amt.w > t.w:
				// saturate: any amount >= w behaves like w
				as = fmt.Sprintf("(ite (bvult %s (_ bv%d %d)) ((_ extract %d 0) %s) (_ bv%d %d))", as, t.w, amt.w, t.w-1, as, t.w, t.w)
			}
			switch {
			case t.op == OpShl:
				body = fmt.Sprintf("(bvshl %s %s)", a[0], as)
			case t.signed:
				body = fmt.Sprintf("(bvashr %s %s)", a[0], as)
			default:
				body = fmt.Sprintf("(bvlshr %s %s)", a[0], as)
			}
		} else {
			if !amt.isConst() {
				return "", errUnsupported{"shift by symbolic amount on integers"}
			}
			k := amt.c
			if k >= uint64(t.w) {
				if t.op == OpShr && t.signed {
					body = fmt.Sprintf("(ite (< %s 0) (- 1) 0)", a[0])
				} else {
					body = "0"
				}
			} else if t.op == OpShl {
				body = fmt.Sprintf("(* %s %s)", a[0], pow2(uint(k)))
				if !l.exactFits(t) {
					body = l.wrap(body, t.w, t.signed)
				}
			} else {
				body = fmt.Sprintf("(div %s %s)", a[0], pow2(uint(k)))
			}
		}
	case OpConv:
		src := t.args[0]
		if bv {
			switch {
			case src.w == t.w:
				return a[0], nil
			case src.w < t.w && src.signed:
				body = fmt.Sprintf("((_ sign_extend %d) %s)", t.w-src.w, a[0])
			case src.w < t.w:
				body = fmt.Sprintf("((_ zero_extend %d) %s)", t.w-src.w, a[0])
			default:
				body = fmt.Sprintf("((_ extract %d 0) %s)", t.w-1, a[0])
			}
		} else {
			nested := false
			switch {
			case src.signed == t.signed:
				nested = src.w <= t.w
			case !src.signed && t.signed:
				nested = src.w < t.w
			}
			if nested || l.exactFits(t) {
				return a[0], nil
			}
			body = l.wrap(a[0], t.w, t.signed)
		}
	case OpLt, OpLe:
		if bv {
			o := "bvult"
			switch {
			case t.op == OpLt && t.args[0].signed:
				o = "bvslt"
			case t.op == OpLe && t.args[0].signed:
				o = "bvsle"
			case t.op == OpLe:
				o = "bvule"
			}
			body = fmt.Sprintf("(%s %s %s)", o, a[0], a[1])
		} else if t.op == OpLt {
			body = fmt.Sprintf("(< %s %s)", a[0], a[1])
		} else {
			body = fmt.Sprintf("(<= %s %s)", a[0], a[1])
		}
	case OpEq:
		body = fmt.Sprintf("(= %s %s)", a[0], a[1])
	case OpNot:
		body = "(not " + a[0] + ")"
	case OpBAnd:
		body = fmt.Sprintf("(and %s %s)", a[0], a[1])
	case OpBOr:
		body = fmt.Sprintf("(or %s %s)", a[0], a[1])
	case OpIte:
		body = fmt.Sprintf("(ite %s %s %s)", a[0], a[1], a[2])
	case OpAddFit, OpSubFit, OpMulFit:
		x := t.args[0]
		if bv {
			ext := uint8(1)
			o := "bvadd"
			if t.op == OpSubFit {
				o = "bvsub"
			}
			if t.op == OpMulFit {
				ext = x.w
				o = "bvmul"
			}
			e := "zero_extend"
			if x.signed {
				e = "sign_extend"
			}
			wide := fmt.Sprintf("(%s ((_ %s %d) %s) ((_ %s %d) %s))", o, e, ext, a[0], e, ext, a[1])
			narrow := fmt.Sprintf("((_ %s %d) (%s %s %s))", e, ext, o, a[0], a[1])
			body = fmt.Sprintf("(= %s %s)", wide, narrow)
		} else {
			o := map[Op]string{OpAddFit: "+", OpSubFit: "-", OpMulFit: "*"}[t.op]
			var lo, hi *big.Int
			if x.signed {
				lo = new(big.Int).Neg(pow2(uint(x.w) - 1))
				hi = new(big.Int).Sub(pow2(uint(x.w)-1), big.NewInt(1))
			} else {
				lo = big.NewInt(0)
				hi = new(big.Int).Sub(pow2(uint(x.w)), big.NewInt(1))
			}
			body = fmt.Sprintf("(let ((r (%s %s %s))) (and (>= r %s) (<= r %s)))", o, a[0], a[1], intLit(lo), intLit(hi))
		}
	case OpUF:
		fname := "uf_" + t.name
		if !l.ufs[fname] {
			if l.ufs == nil {
				l.ufs = map[string]bool{}
			}
			l.ufs[fname] = true
			var ss []string
			for _, x := range t.args {
				ss = append(ss, l.sort(x))
			}
			fmt.Fprintf(l.out, "(declare-fun %s (%s) %s)\n", fname, strings.Join(ss, " "), l.sort(t))
		}
		body = fmt.Sprintf("(%s %s)", fname, strings.Join(a, " "))
		if !bv {
			// the function's range is asserted once per application (a fact about the
			// abstracted function) instead of wrapping the result in mod 2^w
			rangeOf = typeRange(t.w, t.signed)
		}
	default:
		return "", errUnsupported{opNames[t.op]}
	}
	n := fmt.Sprintf("t%d", l.next)
	l.next++
	fmt.Fprintf(l.out, "(define-fun %s () %s %s)\n", n, l.sort(t), body)
	if rangeOf != nil {
		fmt.Fprintf(l.out, "(assert (and (<= %s %s) (<= %s %s)))\n", intLit(rangeOf.lo), n, n, intLit(rangeOf.hi))
	}
	l.names[t] = n
	return n, nil
}

const intPrelude = `(define-fun tdiv ((a Int) (b Int)) Int (ite (>= b 0) (ite (>= a 0) (div a b) (- (div (- a) b))) (ite (>= a 0) (- (div a (- b))) (div (- a) (- b)))))
(define-fun trem ((a Int) (b Int)) Int (- a (* b (tdiv a b))))
`

// ---- solver processes ----

type solverSpec struct {
	name string // evidence name
	bin  string
	args []string
	th   theory
}

var solverSpecs = map[string]solverSpec{
	"z3-bv":     {"z3-4.8.12/bv", "/usr/bin/z3", []string{"-in"}, thBV},
	"z3-int":    {"z3-4.8.12/int", "/usr/bin/z3", []string{"-in"}, thINT},
	"z3new-bv":  {"z3-5.1.0/bv", "z3-new", []string{"-in"}, thBV},
	"z3new-int": {"z3-5.1.0/int", "z3-new", []string{"-in"}, thINT},
	"cvc5-bv":   {"cvc5-1.0/bv", "cvc5", []string{"--incremental", "--lang=smt2", "--produce-models"}, thBV},
	"cvc5-int":  {"cvc5-1.0/int", "cvc5", []string{"--incremental", "--lang=smt2", "--produce-models"}, thINT},
}

type solverProc struct {
	key    string
	spec   solverSpec
	cmd    *exec.Cmd
	in     io.WriteCloser
	lines  chan string
	low    *lowerer
	synced int // pc entries asserted in the current path scope
	seq    int
	toMs   int
	broken bool
	log    *os.File // transcript (VERIF_SOLVER_LOG)
}

var solverSpawns int64

func startSolver(key string, timeoutMs int) (*solverProc, error) {
	spec, ok := solverSpecs[key]
	if !ok {
		return nil, fmt.Errorf("unknown solver %q", key)
	}
	args := append([]string{}, spec.args...)
	if strings.HasPrefix(key, "cvc5") {
		args = append(args, fmt.Sprintf("--tlimit-per=%d", timeoutMs))
	}
	cmd := exec.Command(spec.bin, args...)
	in, err := cmd.StdinPipe()
	if err != nil {
		return nil, err
	}
	outp, err := cmd.StdoutPipe()
	if err != nil {
		return nil, err
	}
	cmd.Stderr = nil
	if err := cmd.Start(); err != nil {
		return nil, err
	}
	atomic.AddInt64(&solverSpawns, 1)
	p := &solverProc{key: key, spec: spec, cmd: cmd, in: in, lines: make(chan string, 256), toMs: timeoutMs}
	if d := os.Getenv("VERIF_SOLVER_LOG"); d != "" {
		p.log, _ = os.Create(fmt.Sprintf("%s/%s-%d-%d.smt2", d, strings.ReplaceAll(key, "/", "_"), timeoutMs, cmd.Process.Pid))
	}
	go func() {
		sc := bufio.NewScanner(outp)
		sc.Buffer(make([]byte, 1<<20), 1<<26)
		for sc.Scan() {
			p.lines <- sc.Text()
		}
		close(p.lines)
	}()
	var sb strings.Builder
	if !strings.HasPrefix(key, "cvc5") {
		fmt.Fprintf(&sb, "(set-option :timeout %d)\n", timeoutMs)
	} else {
		sb.WriteString("(set-logic ALL)\n")
	}
	if spec.th == thINT {
		sb.WriteString(intPrelude)
	}
	sb.WriteString("(push 1)\n")
	p.send(sb.String())
	p.resetLowerer()
	return p, nil
}

func (p *solverProc) resetLowerer() {
	p.low = &lowerer{th: p.spec.th, names: map[*Term]string{}, out: &strings.Builder{}, bounds: map[*Term]*ival{}, ivmemo: map[*Term]*ival{}}
	p.synced = 0
}

func (p *solverProc) send(s string) {
	if p.broken {
		return
	}
	if p.log != nil {
		p.log.WriteString(s)
	}
	if _, err := io.WriteString(p.in, s); err != nil {
		p.broken = true
	}
}

func (p *solverProc) kill() {
	p.broken = true
	if p.cmd != nil && p.cmd.Process != nil {
		p.cmd.Process.Kill()
		go p.cmd.Wait()
	}
}

// newPath pops the previous path scope and opens a fresh one.
func (p *solverProc) newPath() {
	p.send("(pop 1)\n(push 1)\n")
	p.resetLowerer()
}

// roundTrip sends text followed by an echo marker and returns lines up to the marker.
func (p *solverProc) roundTrip(text string, hard time.Duration) ([]string, bool) {
	if p.broken {
		return nil, false
	}
	p.seq++
	marker := fmt.Sprintf("DONE-%d", p.seq)
	p.send(text + fmt.Sprintf("(echo \"%s\")\n", marker))
	var out []string
	timer := time.NewTimer(hard)
	defer timer.Stop()
	if p.log != nil {
		t0 := time.Now()
		defer func() { fmt.Fprintf(p.log, "; ^ %s took %dms -> %v\n", marker, time.Since(t0).Milliseconds(), out) }()
	}
	for {
		select {
		case ln, ok := <-p.lines:
			if !ok {
				p.broken = true
				return out, false
			}
			ln = strings.TrimSpace(ln)
			if strings.Trim(ln, "\"") == marker {
				return out, true
			}
			if ln != "" {
				out = append(out, ln)
			}
		case <-timer.C:
			if d := os.Getenv("VERIF_DUMP_TIMEOUT"); d != "" {
				os.WriteFile(fmt.Sprintf("%s/timeout-%s-%d.smt2", d, strings.ReplaceAll(p.key, "/", "_"), time.Now().UnixNano()), []byte(text), 0o644)
			}
			p.kill()
			return out, false
		}
	}
}

type satResult int

const (
	resUnsat satResult = iota
	resSat
	resUnknown
)

func (r satResult) String() string { return [...]string{"unsat", "sat", "unknown"}[r] }

// check asserts pc[synced:] permanently (path scope), then checks pc ∧ extra.
// If wantModel and sat, it returns values for vars.
func (p *solverProc) check(pc []*Term, extra *Term, vars []*Term, wantModel bool) (satResult, map[string]uint64, string) {
	if p.broken {
		return resUnknown, nil, "solver process broken"
	}
	low := p.low
	low.out.Reset()
	for ; p.synced < len(pc); p.synced++ {
		if low.th == thINT {
			low.learn(pc[p.synced], true)
		}
		n, err := low.lower(pc[p.synced])
		if err != nil {
			return resUnknown, nil, err.Error()
		}
		fmt.Fprintf(low.out, "(assert %s)\n", n)
	}
	var en string
	if extra != nil {
		var err error
		en, err = low.lower(extra)
		if err != nil {
			// definitions emitted so far remain valid; flush them
			p.send(low.out.String())
			return resUnknown, nil, err.Error()
		}
	}
	var vnames []string
	if wantModel {
		for _, v := range vars {
			n, err := low.lower(v)
			if err == nil {
				vnames = append(vnames, n)
			}
		}
	}
	text := low.out.String()
	low.out.Reset()
	text += "(push 1)\n"
	if extra != nil {
		text += "(assert " + en + ")\n"
	}
	text += "(check-sat)\n"
	lines, ok := p.roundTrip(text, time.Duration(p.toMs)*time.Millisecond+10*time.Second)
	if !ok {
		return resUnknown, nil, "solver timeout/killed"
	}
	res := resUnknown
	why := ""
	for _, ln := range lines {
		switch {
		case ln == "sat":
			res = resSat
		case ln == "unsat":
			res = resUnsat
		case ln == "unknown":
			res = resUnknown
			why = "unknown"
		case strings.HasPrefix(ln, "(error"):
			p.send("(pop 1)\n")
			return resUnknown, nil, "solver error: " + ln
		}
	}
	var model map[string]uint64
	if res == resSat && wantModel && len(vnames) > 0 {
		lines, ok = p.roundTrip("(get-value ("+strings.Join(vnames, " ")+"))\n", 20*time.Second)
		if ok {
			model = parseModel(strings.Join(lines, " "), vars, p.spec.th)
		}
		if model == nil {
			p.send("(pop 1)\n")
			return resUnknown, nil, "model parse failed: " + strings.Join(lines, " ")
		}
	} else if res == resSat {
		model = map[string]uint64{}
	}
	p.send("(pop 1)\n")
	return res, model, why
}

// parseModel parses "((v0 #x..) (v1 (- 5)) (v2 true))".
func parseModel(s string, vars []*Term, th theory) map[string]uint64 {
	if strings.Contains(s, "(error") {
		return nil
	}
	byName := map[string]*Term{}
	for _, v := range vars {
		byName[varName(v)] = v
	}
	m := map[string]uint64{}
	toks := tokenizeSexp(s)
	// pattern: ( name value ) where value may be "(- N)" or "(_ bvN w)"
	i := 0
	for i < len(toks) {
		if toks[i] == "(" && i+1 < len(toks) && byName[toks[i+1]] != nil {
			v := byName[toks[i+1]]
			j := i + 2
			var val uint64
			switch {
			case j < len(toks) && toks[j] == "(" && j+1 < len(toks) && toks[j+1] == "-":
				n, ok := new(big.Int).SetString(toks[j+2], 10)
				if !ok {
					return nil
				}
				n.Neg(n)
				val = bigToU64(n)
				j += 4
			case j < len(toks) && toks[j] == "(" && j+1 < len(toks) && toks[j+1] == "_":
				n, ok := new(big.Int).SetString(strings.TrimPrefix(toks[j+2], "bv"), 10)
				if !ok {
					return nil
				}
				val = bigToU64(n)
				j += 5
			case j < len(toks):
				t := toks[j]
				switch {
				case t == "true":
					val = 1
				case t == "false":
					val = 0
				case strings.HasPrefix(t, "#x"):
					u, err := strconv.ParseUint(t[2:], 16, 64)
					if err != nil {
						return nil
					}
					val = u
				case strings.HasPrefix(t, "#b"):
					u, err := strconv.ParseUint(t[2:], 2, 64)
					if err != nil {
						return nil
					}
					val = u
				default:
					n, ok := new(big.Int).SetString(t, 10)
					if !ok {
						return nil
					}
					val = bigToU64(n)
				}
				j++
			}
			m[v.name] = val & maskB(v.w)
			i = j
			continue
		}
		i++
	}
	if len(m) != len(byName) {
		return nil
	}
	return m
}

func bigToU64(n *big.Int) uint64 {
	mod := new(big.Int).Mod(n, pow2(64))
	return mod.Uint64()
}

func tokenizeSexp(s string) []string {
	var toks []string
	cur := strings.Builder{}
	flush := func() {
		if cur.Len() > 0 {
			toks = append(toks, cur.String())
			cur.Reset()
		}
	}
	for _, r := range s {
		switch r {
		case '(', ')':
			flush()
			toks = append(toks, string(r))
		case ' ', '\t', '\n':
			flush()
		default:
			cur.WriteRune(r)
		}
	}
	flush()
	return toks
}

// ---- interval analysis (INT lowering only): elides wrap-around where the exact
// result provably fits, using variable ranges and simple bounds learned from the
// path condition (which is asserted in the same solver scope). ----

type ival struct{ lo, hi *big.Int }

func typeRange(w uint8, signed bool) *ival {
	if w == 0 {
		return &ival{big.NewInt(0), big.NewInt(1)}
	}
	if signed {
		return &ival{new(big.Int).Neg(pow2(uint(w) - 1)), new(big.Int).Sub(pow2(uint(w)-1), big.NewInt(1))}
	}
	return &ival{big.NewInt(0), new(big.Int).Sub(pow2(uint(w)), big.NewInt(1))}
}

func (iv *ival) within(o *ival) bool { return iv.lo.Cmp(o.lo) >= 0 && iv.hi.Cmp(o.hi) <= 0 }

func termConstBig(t *Term) *big.Int {
	if t.signed {
		return big.NewInt(sx(t.c, t.w))
	}
	return new(big.Int).SetUint64(t.c)
}

// exact returns the interval of the mathematically exact result of t's operation
// (before wrap-around), or nil if unknown.
func (l *lowerer) exact(t *Term) *ival {
	get := func(i int) *ival { return l.interval(t.args[i]) }
	switch t.op {
	case OpAdd:
		a, b := get(0), get(1)
		return &ival{new(big.Int).Add(a.lo, b.lo), new(big.Int).Add(a.hi, b.hi)}
	case OpSub:
		a, b := get(0), get(1)
		return &ival{new(big.Int).Sub(a.lo, b.hi), new(big.Int).Sub(a.hi, b.lo)}
	case OpNeg:
		a := get(0)
		return &ival{new(big.Int).Neg(a.hi), new(big.Int).Neg(a.lo)}
	case OpMul:
		a, b := get(0), get(1)
		c := []*big.Int{new(big.Int).Mul(a.lo, b.lo), new(big.Int).Mul(a.lo, b.hi), new(big.Int).Mul(a.hi, b.lo), new(big.Int).Mul(a.hi, b.hi)}
		lo, hi := c[0], c[0]
		for _, x := range c[1:] {
			if x.Cmp(lo) < 0 {
				lo = x
			}
			if x.Cmp(hi) > 0 {
				hi = x
			}
		}
		return &ival{lo, hi}
	case OpShl:
		if t.args[1].isConst() && t.args[1].c < 64 {
			a := get(0)
			m := pow2(uint(t.args[1].c))
			return &ival{new(big.Int).Mul(a.lo, m), new(big.Int).Mul(a.hi, m)}
		}
	case OpConv:
		return get(0)
	}
	return nil
}

func (l *lowerer) exactFits(t *Term) bool {
	e := l.exact(t)
	return e != nil && e.within(typeRange(t.w, t.signed))
}

func (l *lowerer) nonneg(t *Term) bool   { return l.interval(t).lo.Sign() >= 0 }
func (l *lowerer) positive(t *Term) bool { return l.interval(t).lo.Sign() > 0 }

// interval returns a sound enclosure of t's value (its Go-semantics integer).
func (l *lowerer) interval(t *Term) *ival {
	if iv, ok := l.ivmemo[t]; ok {
		return iv
	}
	full := typeRange(t.w, t.signed)
	var iv *ival
	switch t.op {
	case OpConst:
		if t.w == 0 {
			iv = full
		} else {
			c := termConstBig(t)
			iv = &ival{c, c}
		}
	case OpVar:
		iv = full
		if b, ok := l.bounds[t]; ok {
			iv = b
		}
	case OpAdd, OpSub, OpNeg, OpMul, OpShl, OpConv:
		if e := l.exact(t); e != nil && e.within(full) {
			iv = e
		}
	case OpDiv:
		a, b := l.interval(t.args[0]), l.interval(t.args[1])
		if a.lo.Sign() >= 0 && b.lo.Sign() > 0 {
			iv = &ival{new(big.Int).Div(a.lo, b.hi), new(big.Int).Div(a.hi, b.lo)}
		}
	case OpRem:
		a, b := l.interval(t.args[0]), l.interval(t.args[1])
		if a.lo.Sign() >= 0 && b.lo.Sign() > 0 {
			hi := new(big.Int).Sub(b.hi, big.NewInt(1))
			if a.hi.Cmp(hi) < 0 {
				hi = a.hi
			}
			iv = &ival{big.NewInt(0), hi}
		}
	case OpAnd:
		// x & c with a non-negative constant mask is within [0, c]
		for k := 0; k < 2; k++ {
			if c := t.args[k]; c.isConst() && (!c.signed || sx(c.c, c.w) >= 0) {
				iv = &ival{big.NewInt(0), new(big.Int).SetUint64(c.c)}
			}
		}
	case OpShr:
		if t.args[1].isConst() && t.args[1].c < 64 {
			a := l.interval(t.args[0])
			m := pow2(uint(t.args[1].c))
			iv = &ival{new(big.Int).Div(a.lo, m), new(big.Int).Div(a.hi, m)}
			if a.lo.Sign() < 0 {
				// floor division for negatives: Div is Euclidean for positive m, which equals floor
			}
		}
	case OpIte:
		a, b := l.interval(t.args[1]), l.interval(t.args[2])
		lo, hi := a.lo, a.hi
		if b.lo.Cmp(lo) < 0 {
			lo = b.lo
		}
		if b.hi.Cmp(hi) > 0 {
			hi = b.hi
		}
		iv = &ival{lo, hi}
	}
	if iv == nil {
		iv = full
	}
	l.ivmemo[t] = iv
	return iv
}

// boundTarget returns the variable a bound on t transfers to (t itself, or a
// variable under value-preserving conversions).
func boundTarget(t *Term) *Term {
	for t.op == OpConv {
		src := t.args[0]
		nested := false
		switch {
		case src.signed == t.signed:
			nested = src.w <= t.w
		case !src.signed && t.signed:
			nested = src.w < t.w
		}
		if !nested {
			return nil
		}
		t = src
	}
	if t.op == OpVar && t.w > 0 {
		return t
	}
	return nil
}

func (l *lowerer) tighten(v *Term, lo, hi *big.Int) {
	cur, ok := l.bounds[v]
	if !ok {
		cur = typeRange(v.w, v.signed)
	}
	n := &ival{cur.lo, cur.hi}
	if lo != nil && lo.Cmp(n.lo) > 0 {
		n.lo = lo
	}
	if hi != nil && hi.Cmp(n.hi) < 0 {
		n.hi = hi
	}
	if n.lo.Cmp(n.hi) > 0 {
		return // contradictory: leave as is (the solver will say unsat)
	}
	l.bounds[v] = n
	// intervals of terms computed earlier stay sound (they were enclosures before); new terms benefit
	delete(l.ivmemo, v)
}

// learn extracts variable bounds from a path-condition conjunct.
func (l *lowerer) learn(c *Term, pos bool) {
	one := big.NewInt(1)
	switch c.op {
	case OpBAnd:
		if pos {
			l.learn(c.args[0], true)
			l.learn(c.args[1], true)
		}
	case OpBOr:
		if !pos {
			l.learn(c.args[0], false)
			l.learn(c.args[1], false)
		}
	case OpNot:
		l.learn(c.args[0], !pos)
	case OpLe, OpLt:
		a, b := c.args[0], c.args[1]
		strict := c.op == OpLt
		if !pos {
			// not (a <= b)  ==  b < a ;  not (a < b) == b <= a
			a, b = b, a
			strict = !strict
		}
		// now: a < b or a <= b
		if a.isConst() {
			if v := boundTarget(b); v != nil {
				lo := termConstBig(a)
				if strict {
					lo = new(big.Int).Add(lo, one)
				}
				l.tighten(v, lo, nil)
			}
		} else if b.isConst() {
			if v := boundTarget(a); v != nil {
				hi := termConstBig(b)
				if strict {
					hi = new(big.Int).Sub(hi, one)
				}
				l.tighten(v, nil, hi)
			}
		}
	case OpEq:
		if !pos {
			return
		}
		a, b := c.args[0], c.args[1]
		if a.isConst() {
			a, b = b, a
		}
		if b.isConst() && b.w > 0 {
			if v := boundTarget(a); v != nil {
				k := termConstBig(b)
				l.tighten(v, k, k)
			}
		}
	}
}
