package interp

// Intrinsics: functions without Go bodies (assembly, runtime linknames, unsafe)
// or whose std implementation relies on reflect.  Each is part of the trusted
// base and is counted in the evidence when used.

import (
	"unicode/utf8"
	"fmt"
	"go/token"
	"go/types"
	"math"
	"regexp"
	"strconv"
	"strings"

	"golang.org/x/tools/go/ssa"
)

type externalFn func(fr *frame, args []value) value

var externals = make(map[string]externalFn)

var bracketRe = regexp.MustCompile(`\[[^\[\]]*\]`)

// lookupExternal finds an intrinsic by exact name, or by the name with type
// arguments stripped for instantiated generics.
func lookupExternal(name string) externalFn {
	if e := externals[name]; e != nil {
		return e
	}
	if strings.Contains(name, "[") {
		s := name
		for {
			n := bracketRe.ReplaceAllString(s, "")
			if n == s {
				break
			}
			s = n
		}
		return externals[s]
	}
	return nil
}

func init() {
	for k, v := range map[string]externalFn{
		"math.Float32bits":     func(fr *frame, a []value) value { return math.Float32bits(a[0].(float32)) },
		"math.Float32frombits": func(fr *frame, a []value) value { return math.Float32frombits(a[0].(uint32)) },
		"math.Float64bits":     func(fr *frame, a []value) value { return math.Float64bits(a[0].(float64)) },
		"math.Float64frombits": func(fr *frame, a []value) value { return math.Float64frombits(a[0].(uint64)) },
		"math.Abs":              func(fr *frame, a []value) value { return math.Abs(a[0].(float64)) },
		"math.Floor":            func(fr *frame, a []value) value { return math.Floor(a[0].(float64)) },
		"math.Ceil":             func(fr *frame, a []value) value { return math.Ceil(a[0].(float64)) },
		"math.Trunc":            func(fr *frame, a []value) value { return math.Trunc(a[0].(float64)) },
		"math.Sqrt":             func(fr *frame, a []value) value { return math.Sqrt(a[0].(float64)) },
		"math.Inf":              func(fr *frame, a []value) value { return math.Inf(a[0].(int)) },
		"math.IsNaN":            func(fr *frame, a []value) value { return math.IsNaN(a[0].(float64)) },
		"math.IsInf":            func(fr *frame, a []value) value { return math.IsInf(a[0].(float64), a[1].(int)) },
		"math.NaN":              func(fr *frame, a []value) value { return math.NaN() },
		"math.Modf": func(fr *frame, a []value) value {
			i, f := math.Modf(a[0].(float64))
			return tuple{i, f}
		},
		"math.Pow10":    func(fr *frame, a []value) value { return math.Pow10(a[0].(int)) },
		"math.Round":    func(fr *frame, a []value) value { return math.Round(a[0].(float64)) },
		"math.Copysign": func(fr *frame, a []value) value { return math.Copysign(a[0].(float64), a[1].(float64)) },
		"math.Signbit":  func(fr *frame, a []value) value { return math.Signbit(a[0].(float64)) },

		"time.runtimeNano": func(fr *frame, a []value) value { return int64(1) },
		"time.now":         func(fr *frame, a []value) value { return tuple{int64(1700000000), int32(0), int64(1)} },
		"runtime.KeepAlive": func(fr *frame, a []value) value { return nil },
		"runtime.GOMAXPROCS": func(fr *frame, a []value) value { return 1 },
		"os.Getenv":          func(fr *frame, a []value) value { return "" },
		"internal/godebug.(*Setting).Value":         func(fr *frame, a []value) value { return "" },
		"(*internal/godebug.Setting).Value":         func(fr *frame, a []value) value { return "" },
		"(*internal/godebug.Setting).IncNonDefault": func(fr *frame, a []value) value { return nil },

		"(*sync.Mutex).Lock":      syncNop,
		"(*sync.Mutex).Unlock":    syncNop,
		"(*sync.Mutex).TryLock":   func(fr *frame, a []value) value { return true },
		"(*sync.RWMutex).Lock":    syncNop,
		"(*sync.RWMutex).Unlock":  syncNop,
		"(*sync.RWMutex).RLock":   syncNop,
		"(*sync.RWMutex).RUnlock": syncNop,
		"(*sync.Once).Do":         extOnceDo,
		"(*sync.Pool).Put":        syncNop,
		"(*sync.Pool).Get":        extPoolGet,

		"errors.Is": extErrorsIs,
		"errors.As": extErrorsAs,

		"fmt.Sprintf":  extSprintf,
		"fmt.Errorf":   extErrorf,
		"fmt.Sprint":   extSprint,
		"fmt.Sprintln": extSprintln,
		"fmt.Fprintf":  extFprintf,
		"fmt.Fprint":   extFprint,
		"fmt.Fprintln": extFprintln,

		"(*strings.Builder).String":      extBuilderString,
		"(*strings.Builder).Len":         extBuilderLen,
		"(*strings.Builder).Cap":         extBuilderLen,
		"(*strings.Builder).Reset":       extBuilderReset,
		"(*strings.Builder).Grow":        syncNop,
		"(*strings.Builder).Write":       extBuilderWrite,
		"(*strings.Builder).WriteByte":   extBuilderWriteByte,
		"(*strings.Builder).WriteRune":   extBuilderWriteRune,
		"(*strings.Builder).WriteString": extBuilderWriteString,

		"internal/bytealg.IndexByteString": extIndexByteString,
		"internal/bytealg.IndexByte":       extIndexByte,
		"internal/bytealg.CountString":     extCountString,
		"internal/bytealg.Count":           extCount,
		"internal/bytealg.Equal":           extBytesEqual,
		"internal/bytealg.Compare":         extBytesCompare,
		"internal/bytealg.IndexString":     extIndexString,
		"internal/bytealg.Index":           extIndexBytes,
		"internal/bytealg.MakeNoZero":      func(fr *frame, a []value) value { return makeBytes(int(asInt64(a[0]))) },
		"internal/stringslite.Index":       extIndexString,
		"internal/stringslite.IndexByte":   extIndexByteString,
		"strings.Index":                    extIndexString,
		"strings.IndexByte":                extIndexByteString,
		"bytes.IndexByte":                  extIndexByte,
		"bytes.Index":                      extIndexBytes,
		"strings.Compare":                  extStringsCompare,
		"internal/abi.NoEscape":            func(fr *frame, a []value) value { return a[0] },
		"internal/abi.Escape":              func(fr *frame, a []value) value { return a[0] },

		"maps.clone":            extMapsClone,
		"sort.Slice":            extSortSlice,
		"sort.SliceStable":      extSortSlice,
		"(*hash/fnv.sum64).Write":  func(fr *frame, a []value) value { return extFnvWrite(fr, a, "fnv64") },
		"(*hash/fnv.sum64a).Write": func(fr *frame, a []value) value { return extFnvWrite(fr, a, "fnv64a") },
		"strings.Clone":         func(fr *frame, a []value) value { return a[0] },
		"strconv.cloneString":   func(fr *frame, a []value) value { return a[0] },
		"internal/stringslite.Clone": func(fr *frame, a []value) value { return a[0] },
		"unique.Make":           extUniqueMake,
		"(unique.Handle).Value": extUniqueValue,

		"unicode/utf8.DecodeRuneInString":     extDecodeRuneInString,
		"unicode/utf8.DecodeRune":             extDecodeRune,
		"unicode/utf8.DecodeLastRuneInString": extDecodeLastRuneInString,
		"unicode/utf8.DecodeLastRune":         extDecodeLastRune,
		"unicode/utf8.ValidString":            extValidString,
		"unicode/utf8.Valid":                  extValid,
		"unicode/utf8.RuneCountInString":      extRuneCountInString,
		"unicode/utf8.RuneCount":              extRuneCount,
		"unicode/utf8.FullRune":               extFullRune,
		"unicode/utf8.FullRuneInString":       extFullRune,

		"strconv.FormatInt":  extFormatInt,
		"strconv.Itoa":       extItoa,
		"strconv.FormatUint": extFormatUint,
		"strconv.AppendInt":  extAppendInt,

		"sync/atomic.LoadInt32":    atomicLoad,
		"sync/atomic.LoadInt64":    atomicLoad,
		"sync/atomic.LoadUint32":   atomicLoad,
		"sync/atomic.LoadUint64":   atomicLoad,
		"sync/atomic.LoadPointer":  atomicLoad,
		"sync/atomic.StoreInt32":   atomicStore,
		"sync/atomic.StoreInt64":   atomicStore,
		"sync/atomic.StoreUint32":  atomicStore,
		"sync/atomic.StoreUint64":  atomicStore,
		"sync/atomic.StorePointer": atomicStore,
		"sync/atomic.AddInt32":     atomicAdd,
		"sync/atomic.AddInt64":     atomicAdd,
		"sync/atomic.AddUint32":    atomicAdd,
		"sync/atomic.AddUint64":    atomicAdd,
		"sync/atomic.CompareAndSwapInt32":  atomicCAS,
		"sync/atomic.CompareAndSwapInt64":  atomicCAS,
		"sync/atomic.CompareAndSwapUint32": atomicCAS,
		"sync/atomic.CompareAndSwapUint64": atomicCAS,
		"sync/atomic.CompareAndSwapPointer": atomicCAS,
	} {
		externals[k] = v
	}
}

func syncNop(fr *frame, a []value) value { return nil }

func atomicLoad(fr *frame, a []value) value { return *(a[0].(*value)) }
func atomicStore(fr *frame, a []value) value {
	fr.i.ex.syncWrite(fr, a[0].(*value))
	*(a[0].(*value)) = a[1]
	return nil
}
func atomicAdd(fr *frame, a []value) value {
	p := a[0].(*value)
	fr.i.ex.syncWrite(fr, p)
	*p = binop(token.ADD, nil, *p, a[1])
	return *p
}
func atomicCAS(fr *frame, a []value) value {
	p := a[0].(*value)
	if equals(nil, *p, a[1]) {
		fr.i.ex.syncWrite(fr, p)
		*p = a[2]
		return true
	}
	return false
}

func extOnceDo(fr *frame, a []value) value {
	// struct Once { _ noCopy; done atomic.Uint32 (struct{_ noCopy; v uint32}); m Mutex }
	o := (*(a[0].(*value))).(structure)
	// find the "done" field: first structure-typed field containing a uint32
	for fi, f := range o {
		if st, ok := f.(structure); ok {
			for si, sf := range st {
				if d, ok := sf.(uint32); ok {
					if d != 0 {
						return nil
					}
					fr.i.ex.syncWrite(fr, &st[si])
					st[si] = uint32(1)
					o[fi] = st
					call(fr.i, fr, token.NoPos, a[1], nil)
					return nil
				}
			}
		}
		if d, ok := f.(uint32); ok { // older layout: done uint32
			if d != 0 {
				return nil
			}
			o[fi] = uint32(1)
			call(fr.i, fr, token.NoPos, a[1], nil)
			return nil
		}
	}
	panic(engineError{"sync.Once layout"})
}

func extPoolGet(fr *frame, a []value) value {
	st := (*(a[0].(*value))).(structure)
	newf := st[len(st)-1]
	switch f := newf.(type) {
	case *ssa.Function:
		if f == nil {
			return iface{}
		}
	case nil:
		return iface{}
	}
	return call(fr.i, fr, token.NoPos, newf, nil)
}

// ---- errors ----

func errorIfaceType() *types.Interface {
	return types.Universe.Lookup("error").Type().Underlying().(*types.Interface)
}

// findMethod returns the method named name of dynamic type t (or nil).
func findMethod(i *interpreter, t types.Type, name string) *ssa.Function {
	ms := i.prog.MethodSets.MethodSet(t)
	for k := 0; k < ms.Len(); k++ {
		sel := ms.At(k)
		if sel.Obj().Name() == name {
			return i.prog.MethodValue(sel)
		}
	}
	return nil
}

func callMethod(fr *frame, recv iface, name string, args ...value) (value, bool) {
	if recv.t == nil {
		return nil, false
	}
	fn := findMethod(fr.i, recv.t, name)
	if fn == nil {
		return nil, false
	}
	return call(fr.i, fr, token.NoPos, fn, append([]value{recv.v}, args...)), true
}

func unwrapErr(fr *frame, err iface) (single iface, multi []value, kind int) {
	fn := findMethod(fr.i, err.t, "Unwrap")
	if fn == nil {
		return iface{}, nil, 0
	}
	res := fn.Signature.Results()
	if res.Len() != 1 {
		return iface{}, nil, 0
	}
	r := call(fr.i, fr, token.NoPos, fn, []value{err.v})
	if _, ok := res.At(0).Type().Underlying().(*types.Slice); ok {
		return iface{}, r.([]value), 2
	}
	if ri, ok := r.(iface); ok {
		return ri, nil, 1
	}
	return iface{}, nil, 0
}

func errIs(fr *frame, err, target iface) bool {
	for {
		if err.t == nil {
			return target.t == nil
		}
		if sameType(err.t, target.t) && types.Comparable(err.t) {
			if r, ok := equalsV(err.v, target.v).(bool); ok && r {
				return true
			}
		}
		if fn := findMethod(fr.i, err.t, "Is"); fn != nil && fn.Signature.Params().Len() == 1 {
			if r, ok := call(fr.i, fr, token.NoPos, fn, []value{err.v, target}).(bool); ok && r {
				return true
			}
		}
		single, multi, kind := unwrapErr(fr, err)
		switch kind {
		case 1:
			if single.t == nil {
				return false
			}
			err = single
		case 2:
			for _, e := range multi {
				if ei := e.(iface); ei.t != nil && errIs(fr, ei, target) {
					return true
				}
			}
			return false
		default:
			return false
		}
	}
}

func extErrorsIs(fr *frame, a []value) value {
	err, target := a[0].(iface), a[1].(iface)
	if err.t == nil || target.t == nil {
		return err.t == nil && target.t == nil
	}
	return errIs(fr, err, target)
}

func errAs(fr *frame, err iface, targetType types.Type, cell *value) bool {
	for {
		if err.t == nil {
			return false
		}
		if it, ok := targetType.Underlying().(*types.Interface); ok {
			if types.Implements(err.t, it) {
				*cell = err
				return true
			}
		} else if types.Identical(err.t, targetType) {
			*cell = err.v
			return true
		}
		if fn := findMethod(fr.i, err.t, "As"); fn != nil && fn.Signature.Params().Len() == 1 {
			tv := iface{t: types.NewPointer(targetType), v: cell}
			if r, ok := call(fr.i, fr, token.NoPos, fn, []value{err.v, tv}).(bool); ok && r {
				return true
			}
		}
		single, multi, kind := unwrapErr(fr, err)
		switch kind {
		case 1:
			err = single
		case 2:
			for _, e := range multi {
				if ei := e.(iface); ei.t != nil && errAs(fr, ei, targetType, cell) {
					return true
				}
			}
			return false
		default:
			return false
		}
	}
}

func extErrorsAs(fr *frame, a []value) value {
	err, target := a[0].(iface), a[1].(iface)
	if target.t == nil {
		panic("errors: target cannot be nil")
	}
	pt, ok := target.t.Underlying().(*types.Pointer)
	if !ok {
		panic("errors: target must be a non-nil pointer")
	}
	if err.t == nil {
		return false
	}
	return errAs(fr, err, pt.Elem(), target.v.(*value))
}

// ---- strings.Builder ----

func builderBuf(a []value) *value {
	st := (*(a[0].(*value))).(structure)
	return &st[1]
}

func extBuilderString(fr *frame, a []value) value {
	b, _ := (*builderBuf(a)).([]value)
	return mkStringO(b)
}
func extBuilderLen(fr *frame, a []value) value {
	b, _ := (*builderBuf(a)).([]value)
	return len(b)
}
func extBuilderReset(fr *frame, a []value) value {
	*builderBuf(a) = []value(nil)
	return nil
}
func extBuilderWrite(fr *frame, a []value) value {
	p := builderBuf(a)
	b, _ := (*p).([]value)
	src := a[1].([]value)
	*p = append(b, src...)
	return tuple{len(src), iface{}}
}
func extBuilderWriteByte(fr *frame, a []value) value {
	p := builderBuf(a)
	b, _ := (*p).([]value)
	*p = append(b, a[1])
	return iface{}
}
func extBuilderWriteRune(fr *frame, a []value) value {
	p := builderBuf(a)
	b, _ := (*p).([]value)
	var enc []value
	if rt, ok := a[1].(*Term); ok {
		enc = encodeRuneSym(fr, rt)
	} else {
		enc = strBytes(string(a[1].(rune)))
	}
	*p = append(b, enc...)
	return tuple{len(enc), iface{}}
}
func extBuilderWriteString(fr *frame, a []value) value {
	p := builderBuf(a)
	b, _ := (*p).([]value)
	src := strBytesO(a[1])
	*p = append(b, src...)
	return tuple{len(src), iface{}}
}

func makeBytes(n int) []value {
	b := make([]value, n)
	for i := range b {
		b[i] = byte(0)
	}
	return b
}

// ---- bytealg over possibly symbolic bytes ----

func byteEq(fr *frame, x, y value) bool {
	switch c := equalsV(x, y).(type) {
	case bool:
		return c
	case *Term:
		return fr.i.ex.decide(c)
	}
	return false
}

func indexByteSym(fr *frame, b []value, c value) int {
	for i, x := range b {
		if byteEq(fr, x, c) {
			return i
		}
	}
	return -1
}

func mustBytes(v value) []value {
	switch s := v.(type) {
	case string:
		return strBytes(s)
	case symString:
		if s.opaque {
			panic(engineError{"opaque formatted string inspected"})
		}
		return s.b
	case []value:
		return s
	}
	panic(engineError{fmt.Sprintf("mustBytes %T", v)})
}

func extIndexByteString(fr *frame, a []value) value { return indexByteSym(fr, mustBytes(a[0]), a[1]) }
func extIndexByte(fr *frame, a []value) value       { return indexByteSym(fr, mustBytes(a[0]), a[1]) }
func countSym(fr *frame, b []value, c value) int {
	n := 0
	for _, x := range b {
		if byteEq(fr, x, c) {
			n++
		}
	}
	return n
}
func extCountString(fr *frame, a []value) value { return countSym(fr, mustBytes(a[0]), a[1]) }
func extCount(fr *frame, a []value) value       { return countSym(fr, mustBytes(a[0]), a[1]) }
func extBytesEqual(fr *frame, a []value) value {
	x, y := mustBytes(a[0]), mustBytes(a[1])
	return strEqSym(x, y)
}
func extBytesCompare(fr *frame, a []value) value {
	return strCompareSym(fr, mustBytes(a[0]), mustBytes(a[1]))
}
func extStringsCompare(fr *frame, a []value) value {
	return strCompareSym(fr, mustBytes(a[0]), mustBytes(a[1]))
}
func indexSym(fr *frame, s, sub []value) int {
	if len(sub) == 0 {
		return 0
	}
	for i := 0; i+len(sub) <= len(s); i++ {
		switch c := strEqSym(s[i:i+len(sub)], sub).(type) {
		case bool:
			if c {
				return i
			}
		case *Term:
			if fr.i.ex.decide(c) {
				return i
			}
		}
	}
	return -1
}
func extIndexString(fr *frame, a []value) value {
	if x, ok := a[0].(string); ok {
		if y, ok := a[1].(string); ok {
			return strings.Index(x, y)
		}
	}
	return indexSym(fr, mustBytes(a[0]), mustBytes(a[1]))
}
func extIndexBytes(fr *frame, a []value) value { return indexSym(fr, mustBytes(a[0]), mustBytes(a[1])) }

// ---- unique (structural interning; used by net/netip) ----

type uniqueKey struct{ enc string }

func extUniqueMake(fr *frame, a []value) value {
	enc, ok := encodeKey(a[0])
	if !ok {
		panic(engineError{"unique.Make of symbolic value"})
	}
	i := fr.i
	if i.unique == nil {
		i.unique = map[string]*value{}
	}
	p := i.unique[enc]
	if p == nil {
		v := a[0]
		p = &v
		i.unique[enc] = p
	}
	return structure{p}
}

func extUniqueValue(fr *frame, a []value) value {
	h := a[0].(structure)
	p := h[0].(*value)
	return *p
}

// ---- utf8 over possibly symbolic bytes ----

func extDecodeRuneInString(fr *frame, a []value) value {
	b := mustBytes(a[0])
	if len(b) == 0 {
		return tuple{rune(0xFFFD), 0}
	}
	r, n := decodeRuneSym(fr, b)
	return tuple{r, n}
}
func extDecodeRune(fr *frame, a []value) value { return extDecodeRuneInString(fr, a) }

func decodeLastSym(fr *frame, b []value) (value, int) {
	end := len(b)
	if end == 0 {
		return rune(0xFFFD), 0
	}
	// mirror utf8.DecodeLastRune: try starts within the last 4 bytes
	lim := end - 4
	if lim < 0 {
		lim = 0
	}
	// ASCII fast path
	last := b[end-1]
	isASCII := termBinop(fr, token.LSS, last, byte(0x80))
	var ascii bool
	switch c := isASCII.(type) {
	case bool:
		ascii = c
	case *Term:
		ascii = fr.i.ex.decide(c)
	}
	if ascii {
		if t, ok := last.(*Term); ok {
			return termToValue(mkConv(t, 32, true)), 1
		}
		return rune(last.(byte)), 1
	}
	start := end - 1
	for start--; start >= lim; start-- {
		// RuneStart: b&0xC0 != 0x80
		c := liftVal(b[start])
		notCont := mkNot(mkEq(mk(OpAnd, 8, false, c, mkConst(0xC0, 8, false)), mkConst(0x80, 8, false)))
		var rs bool
		if notCont.isConst() {
			rs = notCont.c != 0
		} else {
			rs = fr.i.ex.decide(notCont)
		}
		if rs {
			break
		}
	}
	if start < 0 {
		start = 0
	}
	if start < lim {
		start = lim
	}
	r, size := decodeRuneSym(fr, b[start:end])
	if start+size != end {
		return rune(0xFFFD), 1
	}
	return r, size
}
func extDecodeLastRuneInString(fr *frame, a []value) value {
	r, n := decodeLastSym(fr, mustBytes(a[0]))
	return tuple{r, n}
}
func extDecodeLastRune(fr *frame, a []value) value { return extDecodeLastRuneInString(fr, a) }

func validSym(fr *frame, b []value) bool {
	for i := 0; i < len(b); {
		r, n := decodeRuneSym(fr, b[i:])
		if n == 1 {
			if rc, ok := r.(rune); ok && rc == 0xFFFD {
				// either a real U+FFFD cannot be 1 byte: invalid
				return false
			}
		}
		i += n
	}
	return true
}
func extValidString(fr *frame, a []value) value { return validSym(fr, mustBytes(a[0])) }
func extValid(fr *frame, a []value) value       { return validSym(fr, mustBytes(a[0])) }
func runeCountSym(fr *frame, b []value) int {
	n := 0
	for i := 0; i < len(b); n++ {
		_, k := decodeRuneSym(fr, b[i:])
		i += k
	}
	return n
}
func extRuneCountInString(fr *frame, a []value) value { return runeCountSym(fr, mustBytes(a[0])) }
func extRuneCount(fr *frame, a []value) value         { return runeCountSym(fr, mustBytes(a[0])) }
func extFullRune(fr *frame, a []value) value {
	b := mustBytes(a[0])
	n := len(b)
	if n == 0 {
		return false
	}
	if n > 4 {
		b, n = b[:4], 4
	}
	allc := true
	buf := make([]byte, n)
	for i, x := range b {
		c, ok := x.(byte)
		if !ok {
			allc = false
			break
		}
		buf[i] = c
	}
	if allc {
		return utf8.FullRune(buf)
	}
	ex := fr.i.ex
	u8 := func(v uint64) *Term { return mkConst(v, 8, false) }
	in := func(i int, lo, hi uint64) bool {
		t := liftVal(b[i])
		return ex.decide(mkAnd(mkLe(u8(lo), t), mkLe(t, u8(hi))))
	}
	// needed length and accept range of the second byte, by lead byte class
	need, lo, hi := 1, uint64(0x80), uint64(0xBF)
	switch {
	case in(0, 0xC2, 0xDF):
		need = 2
	case in(0, 0xE0, 0xEF):
		need = 3
		if in(0, 0xE0, 0xE0) {
			lo = 0xA0
		} else if in(0, 0xED, 0xED) {
			hi = 0x9F
		}
	case in(0, 0xF0, 0xF4):
		need = 4
		if in(0, 0xF0, 0xF0) {
			lo = 0x90
		} else if in(0, 0xF4, 0xF4) {
			hi = 0x8F
		}
	}
	if n >= need {
		return true
	}
	if n > 1 && !in(1, lo, hi) {
		return true
	}
	if n > 2 && !in(2, 0x80, 0xBF) {
		return true
	}
	return false
}

// ---- integer formatting with symbolic operands ----

// formatUintSym renders the decimal digits of u (unsigned 64-bit term), forking on the digit count.
func formatUintSym(fr *frame, u *Term, minDigits int) []value {
	ex := fr.i.ex
	if u.isConst() {
		s := strconv.FormatUint(u.c, 10)
		for len(s) < minDigits {
			s = "0" + s
		}
		return strBytes(s)
	}
	n := 1
	p := uint64(10)
	for n < 20 {
		if ex.decide(mkLt(u, mkConst(p, 64, false))) {
			break
		}
		n++
		if n < 20 {
			p *= 10
		}
	}
	nd := n
	if nd < minDigits {
		nd = minDigits
	}
	out := make([]value, nd)
	div := uint64(1)
	for i := 0; i < nd; i++ {
		var d *Term
		if i >= n {
			d = mkConst(0, 64, false)
		} else {
			q := u
			if div > 1 {
				q = mk(OpDiv, 64, false, u, mkConst(div, 64, false))
			}
			d = mk(OpRem, 64, false, q, mkConst(10, 64, false))
		}
		out[nd-1-i] = termToValue(mk(OpAdd, 8, false, mkConv(d, 8, false), mkConst('0', 8, false)))
		if i < 19 {
			div *= 10
		}
	}
	return out
}

// formatIntSym renders a signed term like strconv.FormatInt(x, 10) with optional zero padding
// to width (fmt's %0Nd semantics: the sign counts towards the width).
func formatIntSym(fr *frame, x *Term, width int) []value {
	ex := fr.i.ex
	if !x.signed {
		return formatUintSym(fr, mkConv(x, 64, false), width)
	}
	x64 := mkConv(x, 64, true)
	if ex.decide(mkLt(x64, mkConst(0, 64, true))) {
		u := mkConv(mk(OpNeg, 64, true, x64), 64, false)
		d := formatUintSym(fr, u, width-1)
		return append([]value{byte('-')}, d...)
	}
	return formatUintSym(fr, mkConv(x64, 64, false), width)
}

func extFormatInt(fr *frame, a []value) value {
	if t, ok := a[0].(*Term); ok {
		if asInt64(a[1]) != 10 {
			panic(engineError{"FormatInt symbolic with base != 10"})
		}
		return mkString(formatIntSym(fr, t, 0))
	}
	return strconv.FormatInt(a[0].(int64), int(asInt64(a[1])))
}
func extFormatUint(fr *frame, a []value) value {
	if t, ok := a[0].(*Term); ok {
		if asInt64(a[1]) != 10 {
			panic(engineError{"FormatUint symbolic with base != 10"})
		}
		return mkString(formatUintSym(fr, t, 0))
	}
	return strconv.FormatUint(a[0].(uint64), int(asInt64(a[1])))
}
func extItoa(fr *frame, a []value) value {
	if t, ok := a[0].(*Term); ok {
		return mkString(formatIntSym(fr, t, 0))
	}
	return strconv.Itoa(a[0].(int))
}
func extAppendInt(fr *frame, a []value) value {
	var d []value
	if t, ok := a[1].(*Term); ok {
		d = formatIntSym(fr, t, 0)
	} else {
		d = strBytes(strconv.FormatInt(a[1].(int64), int(asInt64(a[2]))))
	}
	return append(a[0].([]value), d...)
}

func extMapsClone(fr *frame, a []value) value {
	it := a[0].(iface)
	m, _ := it.v.(*omap)
	if m == nil {
		return it
	}
	c := &omap{idx: map[string]*oentry{}}
	for _, e := range m.entries {
		if e.deleted {
			continue
		}
		ne := &oentry{key: e.key, val: e.val, enc: e.enc, conc: e.conc}
		c.entries = append(c.entries, ne)
		if ne.conc {
			c.idx[ne.enc] = ne
		} else {
			c.nsym++
		}
		c.live++
	}
	return iface{t: it.t, v: c}
}

// extFnvWrite abstracts FNV-64 over symbolic data as an uninterpreted function
// (sound for every property that does not depend on the absence of collisions).
func extFnvWrite(fr *frame, a []value, name string) value {
	p := a[0].(*value)
	data := a[1].([]value)
	_, stSym := (*p).(*Term)
	sym := stSym
	for _, b := range data {
		if _, ok := b.(*Term); ok {
			sym = true
		}
	}
	if !sym {
		return notHandled{}
	}
	st := liftVal(*p)
	if x := leWord64(data); x != nil {
		// the eight little-endian bytes of one 64-bit word (binary.Write of a hash value):
		// one application over the word instead of eight over its bytes keeps div/mod
		// (INT) and extracts (BV) out of the solver
		st = mkUF(name+"x8", 64, false, st, x)
	} else {
		for _, b := range data {
			st = mkUF(name, 64, false, st, mkConv(liftVal(b), 64, false))
		}
	}
	*p = termToValue(st)
	return tuple{len(data), iface{}}
}

// leWord64 recognises data as byte(x), byte(x>>8), ..., byte(x>>56) of one 64-bit term x.
func leWord64(data []value) *Term {
	if len(data) != 8 {
		return nil
	}
	var x *Term
	for k, b := range data {
		t, ok := b.(*Term)
		if !ok || t.op != OpConv || t.w != 8 {
			return nil
		}
		src := t.args[0]
		if k > 0 {
			if src.op != OpShr || !src.args[1].isConst() || src.args[1].c != uint64(8*k) {
				return nil
			}
			src = src.args[0]
		}
		if src.w != 64 {
			return nil
		}
		if x == nil {
			x = src
		} else if !termEqual(x, src) {
			return nil
		}
	}
	if x.signed {
		x = mkConv(x, 64, false)
	}
	return x
}

// extSortSlice implements sort.Slice / sort.SliceStable (which use reflect) as a
// stable insertion sort calling the interpreted less function.
func extSortSlice(fr *frame, a []value) value {
	it := a[0].(iface)
	xs, _ := it.v.([]value)
	less := a[1]
	lt := func(i, j int) bool {
		r := call(fr.i, fr, token.NoPos, less, []value{i, j})
		switch b := r.(type) {
		case bool:
			return b
		case *Term:
			return fr.i.ex.decide(b)
		}
		panic(engineError{"sort.Slice: less returned non-bool"})
	}
	for i := 1; i < len(xs); i++ {
		for j := i; j > 0 && lt(j, j-1); j-- {
			xs[j], xs[j-1] = xs[j-1], xs[j]
		}
	}
	return nil
}
