#!/bin/bash
export GOFLAGS=-mod=mod GOPROXY=off GOSUMDB=off GOTOOLCHAIN=local
cd /verif/engine && go build -o ../bin/vcheck ./cmd/vcheck || exit 1
cd /verif; VERIF_DIR=$PWD timeout 600 ./bin/vcheck run C13 --tier quick --only StubSelfTest -v 2>&1 | tail -6
python3 - <<'P'
import json,re
try:
    d=json.load(open('/verif/replays/C13/VerifC13_StubSelfTest-v0.json'))
except Exception as e:
    print("no replay file"); raise SystemExit
t=d.get('tags') or []
print(d.get('label'), d.get('msg'))
for x in t:
    m=re.match(r'vector-(\d+) got=(.*)',x,re.S)
    if m:
        i=int(m.group(1)); print("IDX",i); print("GOT ",m.group(2))
        lines=[l for l in open('/verif/harness/types/c13_stubwant.go') if l.startswith('\t"')]
        import ast
        print("WANT",ast.literal_eval(lines[i].strip().rstrip(',')))
P
